package rules

import (
	"fmt"
	"go/token"
	"go/types"

	"golang.org/x/tools/go/ssa"

	"verif/internal/ana"
)

func init() { All["C04"] = checkC04 }

const (
	ntpEpoch   = int64(-2208988800)
	secsPerEra = int64(1) << 32
)

// checkC04 decides the conversion clauses of C04 as linear-inequality
// invariants over all paths of the two conversion functions (no value is ever
// computed): era unfolding lands within half an era of the reference and is
// congruent to the 32-bit seconds field; the seconds field is t.Unix()-epoch
// truncated to 32 bits; the two sub-second conversions are both truncating and
// compose to n-1 <= n' <= n with 0 <= n' < 10^9.
func checkC04(p *ana.Prog, r *ana.Result) {
	r.Explain("C04 (conversion clauses, decided as linear invariants on every path of ntp.Time64FromTime and ntp.TimeFromTime64; integer division, shifts and multiplications by constants are described by their exact floor inequalities and goals are decided by Fourier-Motzkin refutation of the negated goal): era unfolding - for every reference time from 1970 on, the second count handed to time.Unix lies in [tref-2^31, tref+2^31) and equals epoch + k*2^32 + Seconds, i.e. it is the unique representative of the 32-bit seconds field within half an era of the reference, on both sides of an era boundary; seconds field - Time64FromTime stores uint32(t.Unix() - epoch); sub-second part - with n = t.Nanosecond() in [0,10^9), Fraction = floor(n*2^32/10^9) fits 32 bits,; composed with the backward conversion: n-1 <= n' <= n for all 10^9 values of n - the round trip is never later than the original and at most one nanosecond earlier.")
	r.Undecided("order preservation as such (it follows from the monotonicity of the floor functions decided here), the single boundary point t - reference = +2^31 s exactly, references before 1970, time.Time's own arithmetic")
	r.Trust("(time.Time).Nanosecond() returns a value in [0, 999999999]; (time.Time).Unix() of a reference time from 1970 on is >= 0; time.Unix(sec, nsec) with 0 <= nsec < 10^9 denotes sec seconds + nsec nanoseconds")
	from := mustFunc(p, r, "net/ntp", "Time64FromTime")
	to := mustFunc(p, r, "net/ntp", "TimeFromTime64")
	if from == nil || to == nil {
		return
	}
	pset := ana.NewProverSet(p.AllFuncs)
	c04Unfold(p, r, pset, to)
	c04Seconds(p, r, pset, from)
	c04Fraction(p, r, pset, from, to)
}

func callOfName(v ssa.Value, name string) *ssa.Call {
	c, _ := ana.CallOf(v)
	if c == nil || ana.CalleeName(&c.Call) != name {
		return nil
	}
	return c
}

// sumCalls lists the calls of name among the terms of a sum/difference.
func sumCalls(v ssa.Value, name string) []*ssa.Call {
	if c := callOfName(v, name); c != nil {
		return []*ssa.Call{c}
	}
	if bo, ok := v.(*ssa.BinOp); ok && (bo.Op == token.ADD || bo.Op == token.SUB) {
		return append(sumCalls(bo.X, name), sumCalls(bo.Y, name)...)
	}
	if u, ok := v.(*ssa.UnOp); ok && u.Op == token.SUB {
		return sumCalls(u.X, name)
	}
	return nil
}

// c04Unfold: era unfolding in TimeFromTime64.
func c04Unfold(p *ana.Prog, r *ana.Result, pset *ana.ProverSet, fn *ssa.Function) {
	fname := ana.FuncName(fn)
	unix := ana.CallsIn(fn, "time.Unix")
	if len(unix) == 0 {
		r.Violate("C04.unfold", fname, "result-site", p.Pos(fn.Pos()), "UNDECIDED: no time.Unix(sec, nsec) building the result")
		return
	}
	if len(unix) > 1 {
		// several result sites (early returns): each is checked on its own
		for i, u := range unix {
			c04UnfoldAt(p, r, pset, fn, u.(*ssa.Call), fmt.Sprintf("#%d", i+1))
		}
		return
	}
	c04UnfoldAt(p, r, pset, fn, unix[0].(*ssa.Call), "")
}

func c04UnfoldAt(p *ana.Prog, r *ana.Result, pset *ana.ProverSet, fn *ssa.Function, at *ssa.Call, suffix string) {
	fname := ana.FuncName(fn)
	pr := pset.For(fn)
	sec := at.Call.Args[0]
	// tref: (time.Time).Unix of the reference parameter
	var tref *ssa.Call
	ana.Instrs(fn, func(in ssa.Instruction) {
		if c, ok := in.(*ssa.Call); ok && ana.CalleeName(&c.Call) == "(time.Time).Unix" && len(fn.Params) == 2 && c.Call.Args[0] == ssa.Value(fn.Params[1]) {
			tref = c
		}
	})
	if tref == nil {
		r.Violate("C04.unfold", fname, "reference-seconds", p.Pos(fn.Pos()), "UNDECIDED: the reference time's Unix seconds are not read")
		return
	}
	trefAtom := pr.SetRange(tref, 0, 0, false) // references from 1970 on
	secL, ok := pr.Int(sec, 0)
	if !ok {
		r.Violate("C04.unfold", fname, "within-half-era"+suffix, posOf(p, at), "UNDECIDED: seconds value outside the linear domain")
		return
	}
	half := secsPerEra / 2
	lower := secL.Add(ana.NewLin(half, map[string]int64{trefAtom: -1}), 1)   // sec - tref + 2^31 >= 0
	upper := ana.NewLin(half-1, map[string]int64{trefAtom: 1}).Add(secL, -1) // tref + 2^31 - 1 - sec >= 0
	okLo := pr.ProveAt(lower, at)
	okHi := pr.ProveAt(upper, at)
	switch {
	case okLo && okHi:
		r.Ok("C04.unfold", fname, "within-half-era"+suffix, posOf(p, at), "on every path tref - 2^31 <= sec < tref + 2^31 (both directions across an era boundary)")
	case !okHi:
		r.Violate("C04.unfold", fname, "within-half-era"+suffix, posOf(p, at), "the unfolded second count can be 2^31 s or more after the reference: a timestamp from just before an era boundary, unfolded against a reference just after it, lands one era (136 years) late - the unfolding only corrects towards the future")
	default:
		r.Violate("C04.unfold", fname, "within-half-era"+suffix, posOf(p, at), "the unfolded second count can be more than 2^31 s before the reference: a timestamp from just after an era boundary, unfolded against a reference just before it, lands one era early")
	}
	// congruence: every value reaching sec is epoch + k*2^32 + Seconds
	var leaves []ssa.Value
	badOffset := false
	seen := map[ssa.Value]bool{}
	var expand func(v ssa.Value)
	expand = func(v ssa.Value) {
		if seen[v] {
			return
		}
		seen[v] = true
		if ph, ok := v.(*ssa.Phi); ok {
			for _, e := range ph.Edges {
				expand(e)
			}
			return
		}
		// x +/- d with d a merge of constants (an era correction chosen elsewhere, e.g. returned by a
		// helper): every constant must be a whole number of eras, x is examined on its own
		if bo, ok := v.(*ssa.BinOp); ok && (bo.Op == token.ADD || bo.Op == token.SUB) {
			for _, pr := range [][2]ssa.Value{{bo.X, bo.Y}, {bo.Y, bo.X}} {
				if bo.Op == token.SUB && pr[1] != bo.Y {
					continue
				}
				if ks, ok := constMerge(pr[1]); ok {
					for _, k := range ks {
						if k%secsPerEra != 0 {
							badOffset = true
						}
					}
					expand(pr[0])
					return
				}
			}
		}
		leaves = append(leaves, v)
	}
	expand(sec)
	okCong := len(leaves) > 0
	why := ""
	if badOffset {
		okCong, why = false, "a correction added to the second count is not a whole number of eras"
	}
	for _, lf := range leaves {
		l, ok := pr.Int(lf, 0)
		if !ok {
			okCong, why = false, "value outside the linear domain"
			break
		}
		nSec := 0
		for a, c := range l.Coef {
			if a == "t.Seconds" {
				if c != 1 {
					okCong, why = false, "the seconds field is scaled"
				}
				nSec++
				continue
			}
			if c%secsPerEra != 0 {
				okCong, why = false, "a term "+a+" is not a multiple of 2^32"
			}
		}
		if nSec != 1 {
			okCong, why = false, "the seconds field does not enter exactly once"
		}
		if ((l.C-ntpEpoch)%secsPerEra+secsPerEra)%secsPerEra != 0 {
			okCong, why = false, "the constant part is not the NTP epoch modulo 2^32"
		}
	}
	if okCong {
		r.Ok("C04.unfold", fname, "congruent-to-seconds-field"+suffix, posOf(p, at), fmt.Sprintf("all %d candidate values are epoch + k*2^32 + Seconds", len(leaves)))
	} else {
		r.Violate("C04.unfold", fname, "congruent-to-seconds-field"+suffix, posOf(p, at), "the unfolded second count is not the seconds field plus the NTP epoch plus a whole number of eras ("+why+")")
	}
}

// constMerge: v is a merge (phi, possibly nested) all of whose inputs are integer constants.
func constMerge(v ssa.Value) ([]int64, bool) {
	ph, ok := v.(*ssa.Phi)
	if !ok {
		return nil, false
	}
	var out []int64
	seen := map[*ssa.Phi]bool{}
	var rec func(q *ssa.Phi) bool
	rec = func(q *ssa.Phi) bool {
		if seen[q] {
			return true
		}
		seen[q] = true
		for _, e := range q.Edges {
			if k, ok := ana.ConstInt(e); ok {
				out = append(out, k)
				continue
			}
			if n, ok := e.(*ssa.Phi); ok && rec(n) {
				continue
			}
			return false
		}
		return true
	}
	if !rec(ph) || len(out) == 0 {
		return nil, false
	}
	return out, true
}

// c04Seconds: Seconds = uint32(t.Unix() - epoch).
func c04Seconds(p *ana.Prog, r *ana.Result, pset *ana.ProverSet, fn *ssa.Function) {
	fname := ana.FuncName(fn)
	pr := pset.For(fn)
	var st *ssa.Store
	ana.Instrs(fn, func(in ssa.Instruction) {
		if s, ok := in.(*ssa.Store); ok {
			if fa, ok := s.Addr.(*ssa.FieldAddr); ok && fieldNameOf(fa.X.Type(), fa.Field) == "Seconds" {
				st = s
			}
		}
	})
	if st == nil {
		r.Violate("C04.seconds", fname, "seconds-field", p.Pos(fn.Pos()), "UNDECIDED: no store to the Seconds field")
		return
	}
	cv, ok := st.Val.(*ssa.Convert)
	okForm := false
	if ok {
		if b, ok := cv.Type().Underlying().(*types.Basic); ok && b.Kind() == types.Uint32 {
			if l, ok := pr.Int(cv.X, 0); ok && len(l.Coef) == 1 && l.C == -ntpEpoch {
				for _, c := range l.Coef {
					// the single atom of the sum: the Unix() reading of the argument
					if us := sumCalls(cv.X, "(time.Time).Unix"); c == 1 && len(us) == 1 && us[0].Call.Args[0] == ssa.Value(fn.Params[0]) {
						okForm = true
					}
				}
			}
		}
	}
	if okForm {
		r.Ok("C04.seconds", fname, "seconds-field", posOf(p, st), "Seconds = uint32(t.Unix() - epoch): the second count modulo 2^32")
	} else {
		r.Violate("C04.seconds", fname, "seconds-field", posOf(p, st), "the seconds field is not t.Unix() minus the NTP epoch truncated to 32 bits")
	}
}

// c04Fraction: truncating conversions and their composition.
func c04Fraction(p *ana.Prog, r *ana.Result, pset *ana.ProverSet, from, to *ssa.Function) {
	pf, pt := pset.For(from), pset.For(to)
	// forward: Fraction value and the nanosecond source
	var fst *ssa.Store
	var nano *ssa.Call
	ana.Instrs(from, func(in ssa.Instruction) {
		if s, ok := in.(*ssa.Store); ok {
			if fa, ok := s.Addr.(*ssa.FieldAddr); ok && fieldNameOf(fa.X.Type(), fa.Field) == "Fraction" {
				fst = s
			}
		}
		if c, ok := in.(*ssa.Call); ok && ana.CalleeName(&c.Call) == "(time.Time).Nanosecond" && c.Call.Args[0] == ssa.Value(from.Params[0]) {
			nano = c
		}
	})
	unix := ana.CallsIn(to, "time.Unix")
	if fst == nil || nano == nil || len(unix) == 0 {
		r.Violate("C04.fraction", ana.FuncName(from), "anchors", p.Pos(from.Pos()), "UNDECIDED: Fraction store / Nanosecond() source / time.Unix result not found")
		return
	}
	for _, u := range unix[1:] {
		a, ok1 := pt.Int(u.Common().Args[1], 0)
		b, ok2 := pt.Int(unix[0].Common().Args[1], 0)
		if !ok1 || !ok2 || a.String() != b.String() {
			r.Violate("C04.fraction", ana.FuncName(to), "anchors", posOf(p, u), "UNDECIDED: the result sites of TimeFromTime64 do not use the same nanosecond value")
			return
		}
	}
	nAtom := pf.SetRange(nano, 0, 999999999, true)
	fracL, ok1 := pf.Int(fst.Val, 0)
	nsecV := unix[0].Common().Args[1]
	nsecL, ok2 := pt.Int(nsecV, 0)
	if !ok1 || !ok2 {
		r.Violate("C04.fraction", ana.FuncName(from), "linear-domain", posOf(p, fst), "UNDECIDED: sub-second conversion outside the linear domain")
		return
	}
	// fits 32 bits: the uint32 conversion of the fraction keeps the value (the linearisation
	// passes a narrowing conversion only when the operand provably fits)
	fits := false
	if cv, ok := fst.Val.(*ssa.Convert); ok {
		if inner, ok := pf.Int(cv.X, 0); ok && inner.String() == fracL.String() {
			fits = true
		}
	}
	if fits {
		r.Ok("C04.fraction", ana.FuncName(from), "fraction-fits-32-bits", posOf(p, fst), "for n in [0,10^9) the fraction floor(n*2^32/10^9) is below 2^32, so the uint32 conversion keeps it")
	} else {
		r.Violate("C04.fraction", ana.FuncName(from), "fraction-fits-32-bits", posOf(p, fst), "the computed fraction is not provably below 2^32: the uint32 conversion may wrap")
	}
	at := unix[0].(*ssa.Call)
	// composition: identify the fraction atom of `to` with the forward fraction
	var facts []ILinT
	add := func(ls []ana.ILin, prefix string) {
		for _, l := range ls {
			facts = append(facts, l.Rename(prefix))
		}
	}
	add(pf.DefFacts(), "A:")
	add(pt.DefFacts(), "B:")
	fA := fracL.Rename("A:")
	mB := nsecL.Rename("B:")
	add(pf.BoundFacts(append(pf.DefFacts(), fracL)...), "A:")
	add(pt.BoundFacts(append(pt.DefFacts(), nsecL)...), "B:")
	// link: B's t.Fraction == A's fraction value
	link := ana.NewLin(0, map[string]int64{"B:t.Fraction": 1}).Add(fA, -1)
	facts = append(facts, link, ana.NewLin(0, nil).Add(link, -1))
	n := ana.NewLin(0, map[string]int64{"A:" + nAtom: 1})
	notLater := n.Add(mB, -1)                           // n - n' >= 0
	within1 := mB.Add(n, -1).Add(ana.NewLin(1, nil), 1) // n' - n + 1 >= 0
	hasFrac := false
	for _, f := range facts {
		if _, ok := f.Coef["B:t.Fraction"]; ok {
			hasFrac = true
		}
	}
	if !hasFrac {
		r.Violate("C04.fraction", ana.FuncName(to), "round-trip", posOf(p, at), "UNDECIDED: the backward conversion does not read the Fraction field")
		return
	}
	okA := ana.ProveLinear(notLater, facts)
	okB := ana.ProveLinear(within1, facts)
	switch {
	case okA && okB:
		r.Ok("C04.fraction", ana.FuncName(to), "round-trip", posOf(p, at), "for all n in [0,10^9): n-1 <= nsec(fraction(n)) <= n (never later than the original, at most 1 ns earlier)")
	case !okA:
		r.Violate("C04.fraction", ana.FuncName(to), "round-trip", posOf(p, at), "the sub-second part of a converted timestamp can come back LATER than the original (one of the two conversions rounds up instead of truncating)")
	default:
		r.Violate("C04.fraction", ana.FuncName(to), "round-trip", posOf(p, at), "the sub-second part of a converted timestamp can come back more than 1 ns earlier than the original")
	}
	_ = token.ADD
}

// ILinT is an alias to keep the signature readable.
type ILinT = ana.ILin
