package rules

import (
	"fmt"
	"go/token"
	"go/types"
	"sort"
	"strings"

	"golang.org/x/tools/go/ssa"

	"verif/internal/ana"
)

func init() { All["C03"] = checkC03 }

// tsSources renders the provenance of a time.Time value as a set of tags.
func tsSources(fn *ssa.Function, v ssa.Value, ref ssa.Value) []string {
	return tsSourcesX(fn, v, ref, nil)
}

// tsSourcesX: as tsSources; calls (optional) receives every call found as a source.
func tsSourcesX(fn *ssa.Function, v ssa.Value, ref ssa.Value, calls func(c *ssa.Call)) []string {
	set := map[string]bool{}
	seen := map[ssa.Value]bool{}
	var rec func(v ssa.Value)
	rec = func(v ssa.Value) {
		if seen[v] {
			return
		}
		seen[v] = true
		switch x := v.(type) {
		case *ssa.Phi:
			skip := correlatedDeadEdges(x)
			for i, e := range x.Edges {
				if skip[i] {
					continue
				}
				rec(e)
			}
			return
		case *ssa.Extract:
			if c, ok := x.Tuple.(*ssa.Call); ok {
				set[fmt.Sprintf("call:%s#%d", ana.Short(ana.CalleeName(&c.Call)), x.Index)] = true
				return
			}
		case *ssa.Call:
			n := ana.CalleeName(&x.Call)
			if n == ana.Q("net/ntp.TimeFromTime64") {
				tag := "T64(" + ana.AccessPath(x.Call.Args[0]) + ")"
				if x.Call.Args[1] != ref {
					tag += "@other-era-reference"
				}
				set[tag] = true
				return
			}
			set["call:"+ana.Short(n)] = true
			if calls != nil {
				calls(x)
			}
			return
		}
		if u := ana.UniqueReaching(fn, v); u != nil && u != v {
			rec(u)
			return
		}
		set["opaque:"+ana.ValueString(v)] = true
	}
	rec(v)
	var out []string
	for k := range set {
		out = append(out, k)
	}
	sort.Strings(out)
	return out
}

func subset(a []string, allowed ...string) bool {
	m := map[string]bool{}
	for _, x := range allowed {
		m[x] = true
	}
	for _, x := range a {
		if !m[x] {
			return false
		}
	}
	return len(a) > 0
}

func checkC03(p *ana.Prog, r *ana.Result) {
	r.Explain("C03 (the clause 'the four timestamps it combines all belong to that one exchange', decided as a provenance table that both NTP clients must match): the same four values feed ValidateResponseTimestamps, ClockOffset, RoundTripDelay and Filter.Do; on a basic response t0 = kernel transmit timestamp of this request (or clock reading after the send), t1/t2 = this response's receive/transmit fields, t3 = kernel receive timestamp of this datagram (or clock reading after the read; over SCION also the forwarder's timestamp option); on an interleaved response t0/t1/t3 are the remembered cTxTime/sRxTime/cRxTime of the previous exchange (equivalently the fields of the interleaved request built from them) and t2 this response's transmit field; all NTP timestamps are unfolded against the clock reading taken before the send; the remembered triple is written only after a response was accepted (behind ValidateResponseTimestamps == nil), from this exchange's transmit time, receive time and the response's receive field; an interleaved request copies exactly that triple under InterleavedMode, same reference and the age test; each exchange uses its own socket bound to port 0 and closed on return, so a late response to an earlier exchange cannot arrive on it; the exported entry points (MeasureClockOffsetIP, the per-path workers of MeasureClockOffsetSCION) report the timestamp and offset of ONE exchange call, with that call's error or behind `its error == nil` - followed jointly through merges, helper functions and function-valued parameters.")
	r.Undecided("the half-round-trip bound itself, behaviour under loss/duplication/reordering histories, the 3 s window's boundary (<= over IP, < over SCION), kernel timestamp quality")
	c03Client(p, r, "(*IPClient).measureClockOffsetIP", false)
	c03Client(p, r, "(*SCIONClient).measureClockOffsetSCION", true)
	c03Wrapper(p, r)
}

func c03Client(p *ana.Prog, r *ana.Result, name string, scion bool) {
	fn := mustFunc(p, r, "core/client", name)
	if fn == nil {
		return
	}
	fname := ana.FuncName(fn)
	rd := readSite(r, fn)
	if rd == nil {
		return
	}
	co := ana.CallsIn(fn, ana.Q("net/ntp.ClockOffset"))
	rt := ana.CallsIn(fn, ana.Q("net/ntp.RoundTripDelay"))
	vt := ana.CallsIn(fn, ana.Q("net/ntp.ValidateResponseTimestamps"))
	fd := ana.CallsIn(fn, ana.Q("(core/measurements.Filter).Do"))
	if len(co) != 1 || len(rt) != 1 || len(vt) != 1 || len(fd) != 1 {
		r.Violate("C03.table", fname, "call-sites", p.Pos(fn.Pos()), fmt.Sprintf("expected one ClockOffset/RoundTripDelay/ValidateResponseTimestamps/Filter.Do call, found %d/%d/%d/%d", len(co), len(rt), len(vt), len(fd)))
		return
	}
	args := co[0].Common().Args
	same := true
	for _, c := range []ssa.CallInstruction{rt[0], vt[0], fd[0]} {
		a := c.Common().Args
		for i := 0; i < 4; i++ {
			if a[i] != args[i] {
				same = false
			}
		}
	}
	if same {
		r.Ok("C03.table", fname, "same-four-values", posOf(p, co[0]), "validation, offset, delay and filter all receive the same (t0, t1, t2, t3)")
	} else {
		r.Violate("C03.table", fname, "same-four-values", posOf(p, co[0]), "the offset is computed (or filtered) from different timestamps than the ones validated")
	}
	// era reference: timebase.Now() taken before the write
	writes := ana.CallsIn(fn, fnWriteMsg)
	var ref ssa.Value
	ana.Instrs(fn, func(in ssa.Instruction) {
		c, ok := in.(*ssa.Call)
		if !ok || ana.CalleeName(&c.Call) != ana.Q("net/ntp.TimeFromTime64") {
			return
		}
		if ref == nil {
			ref = c.Call.Args[1]
		}
	})
	refOK := false
	if rc, _ := ana.CallOf(ref); rc != nil && ana.CalleeName(rc.Common()) == ana.Q("core/timebase.Now") && len(writes) == 1 && rc.Block().Dominates(writes[0].Block()) {
		refOK = true
	}
	if refOK {
		r.Ok("C03.table", fname, "era-reference", p.Pos(ref.Pos()), "NTP timestamps are unfolded against timebase.Now() taken before the request is sent")
	} else {
		r.Violate("C03.table", fname, "era-reference", p.Pos(fn.Pos()), "the era reference of TimeFromTime64 is not the clock reading taken before the send")
	}
	// interleavedResp flag: the phi that selects between the arms
	t0, _ := args[0].(*ssa.Phi)
	if t0 == nil {
		r.Violate("C03.table", fname, "arms", posOf(p, co[0]), "UNDECIDED: t0 is not selected between a basic and an interleaved arm")
		return
	}
	// identify arms by t2 (same on both) and by which pred block loads c.prev
	type armVals struct{ v [4]ssa.Value }
	var inter, basic *armVals
	for i := range t0.Edges {
		av := &armVals{}
		okPhi := true
		for k := 0; k < 4; k++ {
			ph, ok := args[k].(*ssa.Phi)
			if !ok || ph.Block() != t0.Block() {
				// the same value on both arms (e.g. t2 = this response's transmit time either way)
				if ok || args[k] == nil {
					okPhi = false
					break
				}
				if in, isIn := args[k].(ssa.Instruction); isIn && !(in.Block() == t0.Block() || in.Block().Dominates(t0.Block())) {
					okPhi = false
					break
				}
				av.v[k] = args[k]
				continue
			}
			av.v[k] = ph.Edges[i]
		}
		if !okPhi {
			r.Violate("C03.table", fname, "arms", posOf(p, co[0]), "UNDECIDED: t0..t3 are not merged in one place from the basic and interleaved arms")
			return
		}
		src := tsSources(fn, av.v[0], ref)
		isInter := false
		for _, s := range src {
			if strings.HasPrefix(s, "T64(") {
				isInter = true
			}
		}
		if isInter {
			inter = av
		} else {
			basic = av
		}
	}
	if inter == nil || basic == nil {
		r.Violate("C03.table", fname, "arms", posOf(p, co[0]), "basic and interleaved arm of (t0..t3) not both found")
		return
	}
	oobTS := "call:net/udp.TimestampFromOOBData#0"
	now := "call:core/timebase.Now"
	rows := []struct {
		slot    string
		v       ssa.Value
		allowed []string
	}{
		{"basic.t0", basic.v[0], []string{"call:net/udp.ReadTXTimestamp#0", now}},
		{"basic.t1", basic.v[1], []string{"T64(ntpresp.ReceiveTime)"}},
		{"basic.t2", basic.v[2], []string{"T64(ntpresp.TransmitTime)"}},
		{"basic.t3", basic.v[3], []string{oobTS, now}},
		{"interleaved.t0", inter.v[0], []string{"T64(c.prev.cTxTime)", "T64(ntpreq.TransmitTime)"}},
		{"interleaved.t1", inter.v[1], []string{"T64(c.prev.sRxTime)", "T64(ntpreq.OriginTime)"}},
		{"interleaved.t2", inter.v[2], []string{"T64(ntpresp.TransmitTime)"}},
		{"interleaved.t3", inter.v[3], []string{"T64(c.prev.cRxTime)", "T64(ntpreq.ReceiveTime)"}},
	}
	table := map[string][]string{}
	for _, row := range rows {
		src := tsSources(fn, row.v, ref)
		table[row.slot] = src
		if subset(src, row.allowed...) {
			r.Ok("C03.table", fname, "slot:"+row.slot, posOf(p, co[0]), row.slot+" <- "+strings.Join(src, " | "))
		} else {
			r.Violate("C03.table", fname, "slot:"+row.slot, posOf(p, co[0]), fmt.Sprintf("%s has provenance {%s}; the exchange's own timestamp for this slot is one of {%s}", row.slot, strings.Join(src, ", "), strings.Join(row.allowed, ", ")))
		}
	}
	r.Table(fname, table)
	// what is reported comes from this exchange: every return that can carry a nil error returns, as
	// offset, ClockOffset(t0..t3) of the validated timestamps or the filter's output for them
	{
		rets := ana.ClassifyReturns(fn)
		okAll, n := true, 0
		for _, ri := range rets {
			if ri.Class == "failure" {
				continue
			}
			if len(ri.Ret.Results) != 3 {
				continue
			}
			n++
			seen := map[ssa.Value]bool{}
			var good func(v ssa.Value) bool
			good = func(v ssa.Value) bool {
				if seen[v] {
					return true
				}
				seen[v] = true
				if ph, ok := v.(*ssa.Phi); ok {
					for _, e := range ph.Edges {
						if !good(e) {
							return false
						}
					}
					return true
				}
				if ld, ok := v.(*ssa.UnOp); ok && ld.Op == token.MUL {
					// named result kept in memory (deferred calls): the values stored that reach the return
					if a, ok := ld.X.(*ssa.Alloc); ok {
						vals := ana.ReachingStores(fn, a)(ld)
						if len(vals) == 0 {
							return false
						}
						for _, x := range vals {
							if x == ana.Unknown || !good(x) {
								return false
							}
						}
						return true
					}
				}
				if u := ana.UniqueReaching(fn, v); u != nil && u != v {
					return good(u)
				}
				if v == co[0].Value() {
					return true
				}
				if c, _ := ana.CallOf(v); c != nil && len(fd) == 1 && c == fd[0] {
					return true
				}
				return false
			}
			if !good(ri.Ret.Results[1]) {
				okAll = false
				r.Violate("C03.table", fname, "reported-offset-is-this-exchange's", posOf(p, ri.Ret), "a return that can carry a nil error reports an offset that is not ClockOffset(t0, t1, t2, t3) of this exchange (or the filter's output for it): "+ana.ValueString(ri.Ret.Results[1]))
			}
		}
		if okAll && n > 0 {
			r.Ok("C03.table", fname, "reported-offset-is-this-exchange's", posOf(p, co[0]), fmt.Sprintf("all %d returns that can carry a nil error report ClockOffset(t0..t3) or Filter.Do(..., that offset) of the validated timestamps", n))
		} else if n == 0 {
			r.Violate("C03.table", fname, "reported-offset-is-this-exchange's", p.Pos(fn.Pos()), "UNDECIDED: no success return found")
		}
	}
	// a clock reading that stands in for a kernel timestamp is taken after the event it stamps:
	// after this request's send (t0), after this datagram's read (t3)
	for _, chk := range []struct {
		slot  string
		v     ssa.Value
		after ssa.Instruction
		what  string
	}{
		{"basic.t0", basic.v[0], func() ssa.Instruction {
			if len(writes) == 1 {
				return writes[0].(ssa.Instruction)
			}
			return nil
		}(), "this request's send"},
		{"basic.t3", basic.v[3], rd, "the read of this datagram"},
	} {
		if chk.after == nil {
			continue
		}
		var nows []*ssa.Call
		tsSourcesX(fn, chk.v, ref, func(c *ssa.Call) {
			if ana.CalleeName(&c.Call) == ana.Q("core/timebase.Now") {
				nows = append(nows, c)
			}
		})
		for _, c := range nows {
			if ana.InstrDominates(chk.after, c) {
				r.Ok("C03.table", fname, "clock-fallback-after-event:"+chk.slot, posOf(p, c), "the clock reading used when no kernel timestamp is available is taken after "+chk.what)
			} else {
				r.Violate("C03.table", fname, "clock-fallback-after-event:"+chk.slot, posOf(p, c), "the clock reading that replaces a missing kernel timestamp in "+chk.slot+" is not taken after "+chk.what+": it does not stamp this exchange's event (the round-trip delay shrinks or turns negative and the offset is off by half the wait)")
			}
		}
	}
	// basic t0 / t3 belong to this exchange: ReadTXTimestamp after the write of this call, TimestampFromOOBData on the oob of this read
	for _, c := range ana.CallsIn(fn, ana.Q("net/udp.ReadTXTimestamp")) {
		if len(writes) == 1 && writes[0].Block().Dominates(c.Block()) {
			r.Ok("C03.table", fname, "tx-timestamp-after-send", posOf(p, c), "the kernel transmit timestamp is read after this request's send")
		} else {
			r.Violate("C03.table", fname, "tx-timestamp-after-send", posOf(p, c), "the transmit timestamp is not read after this request's send")
		}
	}
	nOOB := 0
	for _, c := range ana.CallsIn(fn, ana.Q("net/udp.TimestampFromOOBData")) {
		arg := c.Common().Args[0]
		if sl, ok := ana.UniqueReaching(fn, arg).(*ssa.Slice); ok && sl.High == ssa.Value(extractOf(rd, 1)) && sliceRootIs(sl.X, rd.Call.Args[2]) {
			nOOB++
			r.Ok("C03.table", fname, "rx-timestamp-of-this-datagram", posOf(p, c), "the receive timestamp is parsed from the control data oob[:oobn] of this read")
		} else if scion && strings.HasSuffix(ana.AccessPath(arg), "tsOpt.OptData") || (scion && strings.Contains(ana.AccessPath(arg), "FindOption")) {
			r.Assumed("C03.table", fname, "rx-timestamp-from-forwarder-option", posOf(p, c), "over SCION the end-host forwarder's timestamp option of this datagram may replace the local receive timestamp (trusted; see C08 for its parsing)")
		} else {
			r.Violate("C03.table", fname, "rx-timestamp-of-this-datagram", posOf(p, c), "a receive timestamp is parsed from data other than this read's control messages")
		}
	}
	if nOOB != 1 {
		r.Violate("C03.table", fname, "rx-timestamp-site", p.Pos(fn.Pos()), fmt.Sprintf("expected one TimestampFromOOBData on this read's oob data, found %d", nOOB))
	}
	// the interleaved arm is taken only when this response answered the interleaved request:
	// every path into the arm passes the accept edge of resp.OriginTime == req.ReceiveTime
	{
		respRoot := ntpCallArgRoot(r, fn, ana.Q("net/ntp.DecodePacket"), 0, 0)
		reqRoot := ntpCallArgRoot(r, fn, ana.Q("net/ntp.EncodePacket"), 1, 0)
		isPath := func(v ssa.Value, root ssa.Value, field string) bool {
			pth := ana.AccessPath(v)
			return strings.HasSuffix(pth, "."+field) && rootAlloc(v) == root
		}
		gInter := pathCmpGate(p, fn, "resp.OriginTime==req.ReceiveTime", func(x, y ssa.Value) bool {
			return isPath(x, respRoot, "OriginTime") && isPath(y, reqRoot, "ReceiveTime")
		}, true)
		var interPred *ssa.BasicBlock
		for i := range t0.Edges {
			if t0.Edges[i] == inter.v[0] {
				interPred = t0.Block().Preds[i]
			}
		}
		// the arm starts where the remembered transmit time is unfolded
		var armStart ssa.Instruction
		if c, _ := ana.CallOf(inter.v[0]); c != nil {
			armStart = c
		}
		if interPred == nil || armStart == nil || len(gInter.Accept) == 0 {
			r.Violate("C03.table", fname, "interleaved-arm-selected-by-origin-match", posOf(p, co[0]), "UNDECIDED: cannot locate the interleaved arm or the comparison resp.OriginTime == req.ReceiveTime")
		} else if okp, w := ana.MustPass(fn, nil, gInter, func(x ssa.Instruction) bool { return x == armStart }, nil, nil); okp {
			r.Ok("C03.table", fname, "interleaved-arm-selected-by-origin-match", posOf(p, armStart), "the remembered triple is used only on paths on which this response's origin equals the interleaved request's receive field")
		} else {
			r.Violate("C03.table", fname, "interleaved-arm-selected-by-origin-match", posOf(p, armStart), "the remembered timestamps of the previous exchange are combined with this response although the response did not answer an interleaved request (a basic-mode reply after a loss mixes two exchanges)", w...)
		}
	}
	// prev stores
	accept := ana.ErrNilGate(p, fn, ana.Q("net/ntp.ValidateResponseTimestamps"))
	cTx1 := basic.v[0]
	cRx := basic.v[3]
	want := map[string]func(ssa.Value) bool{
		"c.prev.cTxTime": func(v ssa.Value) bool {
			c, _ := ana.CallOf(v)
			return c != nil && ana.CalleeName(c.Common()) == ana.Q("net/ntp.Time64FromTime") && c.Common().Args[0] == cTx1
		},
		"c.prev.cRxTime": func(v ssa.Value) bool {
			c, _ := ana.CallOf(v)
			return c != nil && ana.CalleeName(c.Common()) == ana.Q("net/ntp.Time64FromTime") && c.Common().Args[0] == cRx
		},
		"c.prev.sRxTime": func(v ssa.Value) bool { return ana.AccessPath(v) == "ntpresp.ReceiveTime" },
	}
	seenStore := map[string]int{}
	ana.Instrs(fn, func(in ssa.Instruction) {
		st, ok := in.(*ssa.Store)
		if !ok {
			return
		}
		pth := ana.AccessPath(st.Addr)
		chk, isTS := want[pth]
		if !isTS && pth != "c.prev.interleaved" {
			return
		}
		seenStore[pth]++
		// only after acceptance
		if okp, w := ana.MustPass(fn, nil, accept, func(x ssa.Instruction) bool { return x == in }, nil, nil); !okp {
			r.Violate("C03.prev", fname, "prev-written-before-acceptance:"+pth, posOf(p, in), pth+" is written on a path on which no response has been accepted: after a failed exchange the remembered triple mixes timestamps of different exchanges", w...)
			return
		}
		if isTS {
			if chk(st.Val) {
				r.Ok("C03.prev", fname, "prev-store:"+pth, posOf(p, in), pth+" <- this exchange's value, only after the response was accepted")
			} else {
				r.Violate("C03.prev", fname, "prev-store:"+pth, posOf(p, in), pth+" is not set from this exchange's own timestamp ("+ana.ValueString(st.Val)+")")
			}
		}
	})
	for f := range want {
		if seenStore[f] != 1 {
			r.Violate("C03.prev", fname, "prev-store-count:"+f, p.Pos(fn.Pos()), fmt.Sprintf("%s is stored %d times (expected once, after acceptance): the next interleaved exchange would combine stale and fresh timestamps", f, seenStore[f]))
		}
	}
	// interleaved request copies
	reqWant := map[string]string{"ntpreq.OriginTime": "c.prev.sRxTime", "ntpreq.ReceiveTime": "c.prev.cRxTime"}
	var interBlk *ssa.BasicBlock
	okReq := true
	ana.Instrs(fn, func(in ssa.Instruction) {
		st, ok := in.(*ssa.Store)
		if !ok {
			return
		}
		pth := ana.AccessPath(st.Addr)
		if src, isReq := reqWant[pth]; isReq {
			if ana.AccessPath(st.Val) != src {
				okReq = false
			}
			interBlk = st.Block()
		}
	})
	txOK := false
	if interBlk != nil {
		for _, in := range interBlk.Instrs {
			if st, ok := in.(*ssa.Store); ok && ana.AccessPath(st.Addr) == "ntpreq.TransmitTime" && ana.AccessPath(st.Val) == "c.prev.cTxTime" {
				txOK = true
			}
		}
	}
	if okReq && txOK && interBlk != nil {
		// guard atoms
		g1 := ana.FindGate(p, fn, "reference==c.prev.reference", func(c ana.Cmp, isCmp bool, _ ssa.Value) (bool, bool) {
			if !isCmp || (c.Op != token.EQL && c.Op != token.NEQ) {
				return false, false
			}
			if ana.AccessPath(c.X) == "c.prev.reference" || ana.AccessPath(c.Y) == "c.prev.reference" {
				return true, c.Op == token.EQL
			}
			return false, false
		})
		g2 := ana.FindGate(p, fn, "age-within-3s", func(c ana.Cmp, isCmp bool, _ ssa.Value) (bool, bool) {
			if !isCmp {
				return false, false
			}
			k, ok := ana.ConstInt(c.Y)
			if !ok || k != 3e9 {
				return false, false
			}
			s, _ := ana.CallOf(c.X)
			if s == nil || ana.CalleeName(s.Common()) != "(time.Time).Sub" {
				return false, false
			}
			t, _ := ana.CallOf(s.Common().Args[1])
			if t == nil || ana.CalleeName(t.Common()) != ana.Q("net/ntp.TimeFromTime64") || ana.AccessPath(t.Common().Args[0]) != "c.prev.cTxTime" {
				return false, false
			}
			switch c.Op {
			case token.LSS, token.LEQ:
				return true, true
			case token.GTR, token.GEQ:
				return true, false
			}
			return false, false
		})
		k, v := ana.ClassFact("c.InterleavedMode", false)
		first := interBlk.Instrs[0]
		tgt := func(in ssa.Instruction) bool { return in == first }
		okG := len(g1.Accept) > 0 && len(g2.Accept) > 0
		for _, g := range []*ana.Gate{g1, g2} {
			if len(g.Accept) == 0 {
				continue
			}
			if okp, _ := ana.MustPass(fn, nil, g, tgt, nil, nil); !okp {
				okG = false
			}
		}
		if ana.Reachable(fn, nil, tgt, nil, map[string]string{k: v}) {
			okG = false
		}
		if okG {
			r.Ok("C03.prev", fname, "interleaved-request", posOf(p, first), "an interleaved request copies (sRxTime, cRxTime, cTxTime) of the previous exchange into (Origin, Receive, Transmit), only under InterleavedMode, same reference and previous transmit time within the 3 s window")
		} else {
			r.Violate("C03.prev", fname, "interleaved-request-guard", posOf(p, first), "an interleaved request can be built without (InterleavedMode && same reference && previous exchange recent)")
		}
	} else {
		r.Violate("C03.prev", fname, "interleaved-request", p.Pos(fn.Pos()), "the interleaved request does not carry (prev.sRxTime, prev.cRxTime, prev.cTxTime) as (Origin, Receive, Transmit)")
	}
	// socket per exchange
	lps := ana.CallsIn(fn, "(*net.ListenConfig).ListenPacket")
	if len(lps) != 1 {
		r.Violate("C03.socket", fname, "socket-site", p.Pos(fn.Pos()), fmt.Sprintf("expected one ListenPacket call per exchange, found %d", len(lps)))
		return
	}
	okPort := false
	if s, _ := ana.CallOf(lps[0].Common().Args[3]); s != nil && ana.CalleeName(s.Common()) == "(net/netip.AddrPort).String" {
		if ap, _ := ana.CallOf(s.Common().Args[0]); ap != nil && ana.CalleeName(ap.Common()) == "net/netip.AddrPortFrom" {
			if k, ok := ana.ConstInt(ap.Common().Args[1]); ok && k == 0 {
				okPort = true
			}
		}
	}
	closed := false
	ana.Instrs(fn, func(in ssa.Instruction) {
		if d, ok := in.(*ssa.Defer); ok && strings.HasSuffix(ana.CalleeName(&d.Call), ").Close") {
			closed = true
		}
	})
	if okPort && closed && !inLoop(fn, lps[0].(ssa.Instruction)) {
		r.Ok("C03.socket", fname, "fresh-ephemeral-socket", posOf(p, lps[0]), "each exchange listens on its own socket bound to port 0 and closes it on return")
	} else {
		r.Violate("C03.socket", fname, "fresh-ephemeral-socket", posOf(p, lps[0]), fmt.Sprintf("the exchange does not use its own ephemeral socket (port 0=%v, closed on return=%v): a delayed response to an earlier exchange can be received and matched by a later one", okPort, closed))
	}
}

// correlatedDeadEdges: a value merged together with a boolean flag (`v, ok` of an inlined helper)
// and used only where the flag is known to hold cannot take the inputs on which the flag is the
// opposite constant. Returns the indices of such inputs of x.
func correlatedDeadEdges(x *ssa.Phi) map[int]bool {
	out := map[int]bool{}
	blk := x.Block()
	var uses []*ssa.BasicBlock
	for _, ref := range ana.Referrers(x) {
		if _, isDbg := ref.(*ssa.DebugRef); isDbg {
			continue
		}
		if ph, isPhi := ref.(*ssa.Phi); isPhi {
			// used as a merge input: the use happens at the end of the corresponding predecessor
			for i, e := range ph.Edges {
				if e == ssa.Value(x) {
					uses = append(uses, ph.Block().Preds[i])
				}
			}
			continue
		}
		uses = append(uses, ref.Block())
	}
	if len(uses) == 0 {
		return out
	}
	for _, in := range blk.Instrs {
		q, ok := in.(*ssa.Phi)
		if !ok {
			break
		}
		if q == x || len(q.Edges) != len(x.Edges) {
			continue
		}
		if b, isB := q.Type().Underlying().(*types.Basic); !isB || b.Kind() != types.Bool {
			continue
		}
		for _, g := range blk.Parent().Blocks {
			if len(g.Instrs) == 0 {
				continue
			}
			iff, isIf := g.Instrs[len(g.Instrs)-1].(*ssa.If)
			if !isIf {
				continue
			}
			for si := 0; si < 2; si++ {
				s := g.Succs[si]
				if len(s.Preds) != 1 {
					continue
				}
				for _, a := range ana.Implied(iff.Cond, si == 0) {
					if a.V != ssa.Value(q) {
						continue
					}
					all := true
					for _, u := range uses {
						if !(s == u || s.Dominates(u)) {
							all = false
						}
					}
					if !all {
						continue
					}
					for i, e := range q.Edges {
						if cb, isC := ana.ConstBool(e); isC && cb != a.Holds {
							out[i] = true
						}
					}
				}
			}
		}
	}
	return out
}
