package rules

import (
	"fmt"
	"go/token"
	"strings"

	"golang.org/x/tools/go/ssa"

	"verif/internal/ana"
)

func init() { All["C06"] = checkC06 }

// t64Of: v is ntp.Time64FromTime(*param) / Time64FromTime(param), possibly merged through phis.
func t64Of(v ssa.Value, param string) bool {
	seen := map[ssa.Value]bool{}
	var rec func(v ssa.Value) bool
	rec = func(v ssa.Value) bool {
		if seen[v] {
			return true
		}
		seen[v] = true
		switch x := v.(type) {
		case *ssa.Phi:
			for _, e := range x.Edges {
				if !rec(e) {
					return false
				}
			}
			return true
		case *ssa.Call:
			if ana.CalleeName(&x.Call) != ana.Q("net/ntp.Time64FromTime") {
				return false
			}
			return isParamOrDeref(x.Call.Args[0], param)
		}
		return false
	}
	return rec(v)
}

func isParamOrDeref(a ssa.Value, param string) bool {
	if u, ok := a.(*ssa.UnOp); ok && u.Op == token.MUL {
		if pr, ok := u.X.(*ssa.Parameter); ok && pr.Name() == param {
			return true
		}
	}
	if pr, ok := a.(*ssa.Parameter); ok && pr.Name() == param {
		return true
	}
	return false
}

func storeToParamDeref(in ssa.Instruction, param string) *ssa.Store {
	st, ok := in.(*ssa.Store)
	if !ok {
		return nil
	}
	if pr, ok := st.Addr.(*ssa.Parameter); ok && pr.Name() == param {
		return st
	}
	return nil
}

func isT64Call(in ssa.Instruction, param string) bool {
	c, ok := in.(*ssa.Call)
	return ok && ana.CalleeName(&c.Call) == ana.Q("net/ntp.Time64FromTime") && isParamOrDeref(c.Call.Args[0], param)
}

func checkC06(p *ana.Prog, r *ana.Result) {
	r.Explain("C06 (structural necessary conditions) in handleRequest/updateTXTimestamp and at their two call sites: response fields have the stated provenance (ReceiveTime <- the possibly bumped receive timestamp that is also what gets stored; interleaved arm only under req.Receive != req.Transmit && a stored receive timestamp equals req.Origin, with Origin <- req.Receive and Transmit <- that entry's stored transmit time; basic arm Origin <- req.Transmit, Transmit <- this reply's transmit time); uniqueness: a collision with a stored receive timestamp leads to the stores only through the +1 bump and a complete rescan from index 0, the scan compares every entry with the current value; freshness: after every store to *rxt / *txt the 64-bit form is recomputed before it is consumed; rx<tx: every bump of *rxt is followed by the !rxt.Before(txt) test-and-repair, updateTXTimestamp applies the same test-and-repair before touching the store; the kernel transmit time replaces the stored one only when it differs, otherwise the exchange is removed; per-client isolation: every buffer access goes through tss[clientID] or the fresh item of this call; listener pairing: the same clientID and receive time go to handleRequest and updateTXTimestamp, clientID derives from the datagram's source, the transmit time handed over is the kernel one exactly when it was read with the expected id, otherwise the software one.")
	r.Undecided("behaviour over histories (that the loop terminates, that timestamps are in fact unique), Time64 wrap, strict rx<tx as a value property")
	hr := mustFunc(p, r, "core/server", "handleRequest")
	ut := mustFunc(p, r, "core/server", "updateTXTimestamp")
	if hr == nil || ut == nil {
		return
	}
	c06Fields(p, r, hr)
	c06Unique(p, r, hr)
	c06Fresh(p, r, hr, "rxt")
	c06Fresh(p, r, hr, "txt")
	c06Fresh(p, r, ut, "txt")
	c06Repair(p, r, hr, ut)
	c06Update(p, r, ut)
	c06Isolation(p, r, hr, ut)
	c06Listener(p, r, "runIPServer", false)
	c06Listener(p, r, "runSCIONServer", true)
}

func c06Fields(p *ana.Prog, r *ana.Result, hr *ssa.Function) {
	fname := ana.FuncName(hr)
	type st struct {
		s   *ssa.Store
		val string
	}
	stores := map[string][]*ssa.Store{}
	ana.Instrs(hr, func(in ssa.Instruction) {
		if s, ok := in.(*ssa.Store); ok {
			pth := ana.AccessPath(s.Addr)
			if strings.HasPrefix(pth, "resp.") {
				stores[pth] = append(stores[pth], s)
			}
		}
	})
	one := func(field string) *ssa.Store {
		if len(stores[field]) != 1 {
			r.Violate("C06.fields", fname, "store-count:"+field, p.Pos(hr.Pos()), fmt.Sprintf("expected exactly one store to %s, found %d", field, len(stores[field])))
			return nil
		}
		return stores[field][0]
	}
	if s := one("resp.ReceiveTime"); s != nil {
		if t64Of(s.Val, "rxt") {
			r.Ok("C06.fields", fname, "ReceiveTime<-rxt64", posOf(p, s), "resp.ReceiveTime <- Time64FromTime(*rxt) (after any bump)")
		} else {
			r.Violate("C06.fields", fname, "ReceiveTime<-rxt64", posOf(p, s), "the reply's receive timestamp is not the (possibly bumped) receive time of this request")
		}
	}
	// interleaved/basic arms
	ot, tt := stores["resp.OriginTime"], stores["resp.TransmitTime"]
	if len(ot) != 2 || len(tt) != 2 {
		r.Violate("C06.fields", fname, "origin/transmit-stores", p.Pos(hr.Pos()), fmt.Sprintf("expected two stores each to resp.OriginTime and resp.TransmitTime (interleaved and basic arm), found %d/%d", len(ot), len(tt)))
		return
	}
	var inter, basic *ssa.BasicBlock
	for _, s := range ot {
		switch ana.AccessPath(s.Val) {
		case "req.ReceiveTime":
			inter = s.Block()
		case "req.TransmitTime":
			basic = s.Block()
		}
	}
	if inter == nil || basic == nil || inter == basic {
		r.Violate("C06.fields", fname, "origin-sources", p.Pos(hr.Pos()), "resp.OriginTime is not set from req.ReceiveTime on one arm and req.TransmitTime on the other")
		return
	}
	r.Ok("C06.fields", fname, "origin-sources", posOf(p, ot[0]), "resp.OriginTime <- req.ReceiveTime (interleaved arm) / req.TransmitTime (basic arm)")
	for _, s := range tt {
		switch s.Block() {
		case inter:
			ch, root := fieldChain(s.Val)
			idx := indexOfAddrVal(s.Val)
			if ch == "buf[].txt" && typeNameOf(root.Type()) == "tssItem" && idx != nil {
				r.Ok("C06.fields", fname, "interleaved-transmit", posOf(p, s), "interleaved arm: resp.TransmitTime <- tssi.buf[o].txt")
				c06MatchIndex(p, r, hr, idx, inter)
			} else {
				r.Violate("C06.fields", fname, "interleaved-transmit", posOf(p, s), "interleaved arm does not serve the stored transmit time of the matched exchange (served: "+ch+")")
			}
		case basic:
			if t64Of(s.Val, "txt") {
				r.Ok("C06.fields", fname, "basic-transmit", posOf(p, s), "basic arm: resp.TransmitTime <- Time64FromTime(*txt)")
			} else {
				r.Violate("C06.fields", fname, "basic-transmit", posOf(p, s), "basic arm does not serve this reply's transmit time")
			}
		default:
			r.Violate("C06.fields", fname, "transmit-store-arm", posOf(p, s), "resp.TransmitTime is stored outside the interleaved/basic arms")
		}
	}
	// arm condition: req.ReceiveTime != req.TransmitTime && o != -1
	g1 := pathCmpGate(p, hr, "req.Receive!=req.Transmit", func(x, y ssa.Value) bool {
		return ana.AccessPath(x) == "req.ReceiveTime" && ana.AccessPath(y) == "req.TransmitTime"
	}, false)
	tgt := func(in ssa.Instruction) bool { return in.Block() == inter && in == inter.Instrs[0] }
	if len(g1.Accept) == 0 {
		r.Violate("C06.fields", fname, "interleaved-guard:req.Receive!=req.Transmit", p.Pos(hr.Pos()), "interleaved arm is not guarded by req.ReceiveTime != req.TransmitTime")
	} else if ok, w := ana.MustPass(hr, nil, g1, tgt, nil, nil); ok {
		r.Ok("C06.fields", fname, "interleaved-guard:req.Receive!=req.Transmit", g1.Sites[0], "the interleaved arm is entered only when the request's receive and transmit fields differ")
	} else {
		r.Violate("C06.fields", fname, "interleaved-guard:req.Receive!=req.Transmit", g1.Sites[0], "an interleaved reply can be given although the request's receive and transmit fields are equal", w...)
	}
}

// c06MatchIndex: the index o used on the interleaved arm is != -1 there and is
// only ever set to an index i under tssi.buf[i].rxt == req.OriginTime.
func c06MatchIndex(p *ana.Prog, r *ana.Result, hr *ssa.Function, idx ssa.Value, inter *ssa.BasicBlock) {
	fname := ana.FuncName(hr)
	// guard o != -1 dominates the arm
	g := ana.FindGate(p, hr, "o!=-1", func(c ana.Cmp, isCmp bool, _ ssa.Value) (bool, bool) {
		if !isCmp || (c.Op != token.EQL && c.Op != token.NEQ) || c.X != idx {
			return false, false
		}
		k, ok := ana.ConstInt(c.Y)
		if !ok || k != -1 {
			return false, false
		}
		return true, c.Op == token.NEQ
	})
	tgt := func(in ssa.Instruction) bool { return in.Block() == inter && in == inter.Instrs[0] }
	if len(g.Accept) == 0 {
		r.Violate("C06.fields", fname, "interleaved-guard:o!=-1", p.Pos(hr.Pos()), "interleaved arm is not guarded by a found store entry (o != -1)")
	} else if ok, w := ana.MustPass(hr, nil, g, tgt, nil, nil); ok {
		r.Ok("C06.fields", fname, "interleaved-guard:o!=-1", g.Sites[0], "the interleaved arm is entered only with a matched store entry")
	} else {
		r.Violate("C06.fields", fname, "interleaved-guard:o!=-1", g.Sites[0], "the interleaved arm can be entered without a matched store entry", w...)
	}
	// all non-(-1) definitions of o: walk phis; each non-constant leaf must be the scan index i selected under buf[i].rxt == req.OriginTime
	seen := map[ssa.Value]bool{}
	okAll := true
	n := 0
	var walk func(v ssa.Value, via *ssa.Phi, edge int)
	walk = func(v ssa.Value, via *ssa.Phi, edge int) {
		if seen[v] {
			return
		}
		if k, ok := ana.ConstInt(v); ok {
			if k != -1 {
				okAll = false
			}
			return
		}
		ph, isPhi := v.(*ssa.Phi)
		if isPhi && (ph.Comment == "o" || via == nil || isIndexCarrier(ph, seen)) {
			seen[v] = true
			// a phi that merges o with the scan index: the edge carrying the scan index must come from the block guarded by the origin comparison
			for i, e := range ph.Edges {
				if iph, ok := e.(*ssa.Phi); ok && isScanIndex(iph) {
					n++
					pred := ph.Block().Preds[i]
					if !guardedByOriginMatch(pred, iph) {
						okAll = false
					}
					continue
				}
				walk(e, ph, i)
			}
			return
		}
		okAll = false
	}
	walk(idx, nil, 0)
	if okAll && n >= 1 {
		r.Ok("C06.fields", fname, "match-index-definition", p.Pos(hr.Pos()), "o is -1 or a scan index i chosen on the edge tssi.buf[i].rxt == req.OriginTime")
	} else {
		r.Violate("C06.fields", fname, "match-index-definition", p.Pos(hr.Pos()), "the store entry served in interleaved mode is not (only) the one whose receive timestamp equals the request's origin timestamp")
	}
}

func isIndexCarrier(ph *ssa.Phi, seen map[ssa.Value]bool) bool { return true }

// isScanIndex: phi [0, i+1].
func isScanIndex(ph *ssa.Phi) bool {
	zero, inc := false, false
	for _, e := range ph.Edges {
		if k, ok := ana.ConstInt(e); ok && k == 0 {
			zero = true
		}
		if bo, ok := e.(*ssa.BinOp); ok && bo.Op == token.ADD && bo.X == ssa.Value(ph) {
			if k, _ := ana.ConstInt(bo.Y); k == 1 {
				inc = true
			}
		}
	}
	return zero && inc
}

// guardedByOriginMatch: block b is entered only through the true edge of buf[i].rxt == req.OriginTime.
func guardedByOriginMatch(b *ssa.BasicBlock, i *ssa.Phi) bool {
	if len(b.Preds) != 1 {
		return false
	}
	pred := b.Preds[0]
	iff, ok := pred.Instrs[len(pred.Instrs)-1].(*ssa.If)
	if !ok || pred.Succs[0] != b {
		return false
	}
	c, pos, isCmp := ana.AsCmp(iff.Cond)
	if !isCmp || c.Op != token.EQL || !pos {
		return false
	}
	for _, pr := range [][2]ssa.Value{{c.X, c.Y}, {c.Y, c.X}} {
		ch, root := fieldChain(pr[0])
		if ch == "buf[].rxt" && typeNameOf(root.Type()) == "tssItem" && indexOfAddrVal(pr[0]) == ssa.Value(i) && ana.AccessPath(pr[1]) == "req.OriginTime" {
			return true
		}
	}
	return false
}

// c06Unique: collision -> bump -> full rescan before the stores.
func c06Unique(p *ana.Prog, r *ana.Result, hr *ssa.Function) {
	fname := ana.FuncName(hr)
	// scan loop: phi i [0, i+1] compared against tssi.len
	var iPhi *ssa.Phi
	ana.Instrs(hr, func(in ssa.Instruction) {
		if ph, ok := in.(*ssa.Phi); ok && isScanIndex(ph) && iPhi == nil {
			iPhi = ph
		}
	})
	if iPhi == nil {
		r.Violate("C06.unique", fname, "scan-loop", p.Pos(hr.Pos()), "UNDECIDED: scan loop over the client's stored exchanges not found")
		return
	}
	// collision test: buf[i].rxt == rxt64
	var collision []ana.Edge
	var collCmp ssa.Value
	ana.IfEdges(hr, func(iff *ssa.If, b *ssa.BasicBlock) {
		c, pos, isCmp := ana.AsCmp(iff.Cond)
		if !isCmp || (c.Op != token.EQL && c.Op != token.NEQ) {
			return
		}
		for _, pr := range [][2]ssa.Value{{c.X, c.Y}, {c.Y, c.X}} {
			ch, root := fieldChain(pr[0])
			if ch == "buf[].rxt" && typeNameOf(root.Type()) == "tssItem" && indexOfAddrVal(pr[0]) == ssa.Value(iPhi) && t64Of(pr[1], "rxt") {
				eqOnTrue := (c.Op == token.EQL) == pos
				if eqOnTrue {
					collision = append(collision, ana.Edge{From: b, Succ: 0})
				} else {
					collision = append(collision, ana.Edge{From: b, Succ: 1})
				}
				collCmp = iff.Cond
			}
		}
	})
	if len(collision) != 1 {
		r.Violate("C06.unique", fname, "collision-test", p.Pos(hr.Pos()), fmt.Sprintf("expected one comparison of every scanned entry's receive timestamp with the current rxt64, found %d: replies may repeat a receive timestamp kept for the client", len(collision)))
		return
	}
	// the comparison is evaluated for every i before anything else in the body: its block is the first body block (successor of the header's continue edge)
	header := iPhi.Block()
	// classic loop: the test's block follows the header; rotated loop (`for i := range n`): it is the header
	bodyFirst := collision[0].From == header
	for _, s := range header.Succs {
		if s == collision[0].From {
			bodyFirst = true
		}
	}
	if bodyFirst {
		r.Ok("C06.unique", fname, "scan-compares-every-entry", p.Pos(collCmp.Pos()), "each scanned entry i < tssi.len is first compared with the current rxt64")
	} else {
		r.Violate("C06.unique", fname, "scan-compares-every-entry", p.Pos(collCmp.Pos()), "the collision comparison is not the first thing done for every scanned entry")
	}
	// consuming stores
	isConsume := func(in ssa.Instruction) bool {
		st, ok := in.(*ssa.Store)
		if !ok || !t64Of(st.Val, "rxt") {
			return false
		}
		pth := ana.AccessPath(st.Addr)
		ch, _ := fieldChain(st.Addr)
		return pth == "resp.ReceiveTime" || ch == "buf[].rxt"
	}
	bump := func(in ssa.Instruction) bool {
		st := storeToParamDeref(in, "rxt")
		if st == nil {
			return false
		}
		c, _ := ana.CallOf(st.Val)
		if c == nil || ana.CalleeName(c.Common()) != "(time.Time).Add" {
			return false
		}
		k, _ := ana.ConstInt(c.Common().Args[1])
		return k == 1
	}
	nBump := 0
	ana.Instrs(hr, func(in ssa.Instruction) {
		if bump(in) {
			nBump++
		}
	})
	if nBump != 1 {
		r.Violate("C06.unique", fname, "bump-site", p.Pos(hr.Pos()), fmt.Sprintf("expected exactly one `*rxt = rxt.Add(1)` bump, found %d", nBump))
		return
	}
	// (1) from the collision edge, the consuming stores are reachable only through the bump
	s := &ana.Search{Fn: hr, Stop: bump, Target: isConsume, Via: func(e ana.Edge) bool { return e == collision[0] }}
	found, w := s.Run(nil)
	if found {
		r.Violate("C06.unique", fname, "collision-leads-to-bump", p.Pos(collCmp.Pos()), "after finding an equal stored receive timestamp the reply can be built without bumping the receive time (duplicate receive timestamp for the client)", w...)
	} else {
		r.Ok("C06.unique", fname, "collision-leads-to-bump", p.Pos(collCmp.Pos()), "from a collision the reply/store are reachable only through *rxt = rxt.Add(1)")
	}
	// (2) from the bump, the consuming stores are reachable only through a full rescan (edge into the scan header with i := 0)
	initEdges := map[ana.Edge]bool{}
	for pi, e := range iPhi.Edges {
		if k, ok := ana.ConstInt(e); ok && k == 0 {
			pred := header.Preds[pi]
			for si, sc := range pred.Succs {
				if sc == header {
					initEdges[ana.Edge{From: pred, Succ: si}] = true
				}
			}
		}
	}
	var bumpIn ssa.Instruction
	ana.Instrs(hr, func(in ssa.Instruction) {
		if bump(in) {
			bumpIn = in
		}
	})
	// a rotated loop (`for i := range n`) tests 0 < n before its first iteration: taking that
	// test's failing edge is a (trivially complete) rescan of zero entries
	ana.IfEdges(hr, func(iff *ssa.If, b *ssa.BasicBlock) {
		c, _, isCmp := ana.AsCmp(iff.Cond)
		if !isCmp {
			return
		}
		zeroVsLen := func(a, l ssa.Value) bool {
			k, ok := ana.ConstInt(a)
			ch, root := fieldChain(l)
			return ok && k == 0 && ch == "len" && typeNameOf(root.Type()) == "tssItem"
		}
		if !zeroVsLen(c.X, c.Y) && !zeroVsLen(c.Y, c.X) {
			return
		}
		for si, sc := range b.Succs {
			if sc == header {
				initEdges[ana.Edge{From: b, Succ: si}] = true
			} else if !inLoopOf(header, sc) {
				initEdges[ana.Edge{From: b, Succ: si}] = true
			}
		}
	})
	s2 := &ana.Search{Fn: hr, Cut: func(e ana.Edge) bool { return initEdges[e] }, Target: isConsume}
	found2, w2 := s2.Run(bumpIn)
	if found2 {
		// second opinion with the facts that hold when the bump is reached (a `dup` flag that is
		// known to be set there decides that the outer loop goes round again)
		s3 := &ana.Search{Fn: hr, Cut: func(e ana.Edge) bool { return initEdges[e] }, Target: isConsume, ArmAt: bumpIn}
		if f3, _ := s3.Run(nil); !f3 {
			found2 = false
		}
	}
	if found, w := found2, w2; found {
		r.Violate("C06.unique", fname, "bump-forces-full-rescan", posOf(p, bumpIn), "after bumping the receive timestamp the entries already scanned are not compared again (scan continues instead of restarting at index 0): the bumped value can equal an earlier entry", w...)
	} else {
		r.Ok("C06.unique", fname, "bump-forces-full-rescan", posOf(p, bumpIn), "after a bump the stores are reachable only through re-entering the scan with i = 0")
	}
	// (3) from the lookup-hit edge, consuming stores are reachable only after the scan ran to completion: every path passes the header's exit edge
	// the scan has run to completion on the edges that leave (or bypass) the loop because the index
	// reached the entry count: the failing edge of a test of i, i+1 or the constant 0 against tssi.len
	exitEdges := map[ana.Edge]bool{}
	isLenLoad := func(v ssa.Value) bool {
		ch, root := fieldChain(v)
		return ch == "len" && typeNameOf(root.Type()) == "tssItem"
	}
	isIdx := func(v ssa.Value) bool {
		if v == ssa.Value(iPhi) {
			return true
		}
		if k, ok := ana.ConstInt(v); ok && k == 0 {
			return true
		}
		if bo, ok := v.(*ssa.BinOp); ok && bo.Op == token.ADD && bo.X == ssa.Value(iPhi) {
			k, _ := ana.ConstInt(bo.Y)
			return k == 1
		}
		return false
	}
	ana.IfEdges(hr, func(iff *ssa.If, b *ssa.BasicBlock) {
		c, _, isCmp := ana.AsCmp(iff.Cond)
		if !isCmp || !((isIdx(c.X) && isLenLoad(c.Y)) || (isIdx(c.Y) && isLenLoad(c.X))) {
			return
		}
		for si, sc := range b.Succs {
			if sc != header && !inLoopOf(header, sc) {
				exitEdges[ana.Edge{From: b, Succ: si}] = true
			}
		}
	})
	var lookup *ssa.Lookup
	ana.Instrs(hr, func(in ssa.Instruction) {
		if l, ok := in.(*ssa.Lookup); ok && l.CommaOk {
			lookup = l
		}
	})
	if lookup != nil {
		okE := extractOf2(lookup, 1)
		hit := ana.FindGate(p, hr, "lookup-hit", func(_ ana.Cmp, isCmp bool, v ssa.Value) (bool, bool) {
			if isCmp || v != okE {
				return false, false
			}
			return true, true
		})
		for e := range hit.Accept {
			e := e
			s3 := &ana.Search{Fn: hr, Cut: func(x ana.Edge) bool { return exitEdges[x] }, Target: isConsume, Via: func(x ana.Edge) bool { return x == e }}
			if found, w := s3.Run(nil); found {
				r.Violate("C06.unique", fname, "stores-after-complete-scan", p.Pos(hr.Pos()), "for a known client the reply can be built before the scan over its stored exchanges has completed", w...)
			} else {
				r.Ok("C06.unique", fname, "stores-after-complete-scan", p.Pos(hr.Pos()), "for a known client every path to the reply/store passes the scan loop's exit")
			}
		}
	}
}

func extractOf2(v ssa.Value, idx int) ssa.Value {
	for _, ref := range ana.Referrers(v) {
		if e, ok := ref.(*ssa.Extract); ok && e.Index == idx {
			return e
		}
	}
	return nil
}

// runFromBlockEdge starts a search as if edge e had just been taken.
func runFromBlockEdge(s *ana.Search, e ana.Edge) (bool, []string) {
	to := e.To()
	if len(to.Instrs) == 0 {
		return false, nil
	}
	// single-predecessor successors can be entered directly; otherwise restrict by cutting the other predecessors is not needed for reachability "from this edge"
	if s.Target != nil && s.Target(to.Instrs[0]) {
		return true, nil
	}
	if s.Stop != nil && s.Stop(to.Instrs[0]) {
		return false, nil
	}
	return s.Run(to.Instrs[0])
}

// c06Fresh: after each store to *param the 64-bit form is recomputed before it is consumed.
func c06Fresh(p *ana.Prog, r *ana.Result, fn *ssa.Function, param string) {
	fname := ana.FuncName(fn)
	isConsume := func(in ssa.Instruction) bool {
		switch x := in.(type) {
		case *ssa.Store:
			return t64Of(x.Val, param) && !isParamAlias(x.Addr)
		case *ssa.BinOp:
			// comparisons with stored values
			if x.Op == token.EQL || x.Op == token.NEQ {
				return t64Of(x.X, param) || t64Of(x.Y, param)
			}
		case *ssa.Call:
			n := ana.CalleeName(&x.Call)
			if n == ana.Q("(net/ntp.Time64).After") || n == ana.Q("(net/ntp.Time64).Before") {
				for _, a := range x.Call.Args {
					if t64Of(a, param) {
						return true
					}
				}
			}
		}
		return false
	}
	recompute := func(in ssa.Instruction) bool { return isT64Call(in, param) }
	n := 0
	ana.Instrs(fn, func(in ssa.Instruction) {
		st := storeToParamDeref(in, param)
		if st == nil {
			return
		}
		n++
		// the last store of a store sequence in the block counts; intermediate stores followed by another store in the same block are covered by the last
		s := &ana.Search{Fn: fn, Stop: func(x ssa.Instruction) bool { return recompute(x) || (storeToParamDeref(x, param) != nil && x != in) }, Target: isConsume}
		if found, w := s.Run(in); found {
			r.Violate("C06.fresh", fname, "stale-"+param+"64-after-store", posOf(p, in), fmt.Sprintf("*%s is changed but its 64-bit form is consumed (stored, served or compared) without being recomputed: the store and the reply disagree with the repaired timestamp", param), w...)
		} else {
			r.Ok("C06.fresh", fname, "recompute-after-store:"+param+"@"+storeDesc(st), posOf(p, in), fmt.Sprintf("every path from this store to *%s to a use of its 64-bit form passes Time64FromTime(*%s)", param, param))
		}
	})
	if n == 0 && !(fn.Name() == "updateTXTimestamp" && param == "rxt") {
		r.Violate("C06.fresh", fname, "no-store-to-"+param, p.Pos(fn.Pos()), fmt.Sprintf("no store to *%s found (bump/repair missing)", param))
	}
}

func storeDesc(st *ssa.Store) string {
	if c, _ := ana.CallOf(st.Val); c != nil {
		return ana.Short(ana.CalleeName(c.Common()))
	}
	if pth := ana.AccessPath(st.Val); pth != "" {
		return pth
	}
	return "value"
}

func isParamAlias(addr ssa.Value) bool {
	_, ok := addr.(*ssa.Parameter)
	return ok
}

// beforeGate: edges on which rxt.Before(*txt) is true (no repair needed).
func beforeGate(p *ana.Prog, fn *ssa.Function) *ana.Gate {
	return ana.FindGate(p, fn, "rxt.Before(txt)", func(_ ana.Cmp, isCmp bool, v ssa.Value) (bool, bool) {
		if isCmp {
			return false, false
		}
		earlier, later, _, ok := strictOrder(v)
		if !ok {
			return false, false
		}
		if isParamOrDeref(earlier, "rxt") && isParamOrDeref(later, "txt") {
			return true, true
		}
		return false, false
	})
}

// isRepair: *txt = (*txt or rxt).Add(1) following *txt = rxt.
func isRepairStore(in ssa.Instruction) bool {
	st := storeToParamDeref(in, "txt")
	if st == nil {
		return false
	}
	c, _ := ana.CallOf(st.Val)
	if c == nil || ana.CalleeName(c.Common()) != "(time.Time).Add" {
		return false
	}
	k, _ := ana.ConstInt(c.Common().Args[1])
	if k != 1 {
		return false
	}
	// receiver: load of *txt whose reaching store in this block is rxt / *rxt, or rxt directly
	recv := c.Common().Args[0]
	if isParamOrDeref(recv, "rxt") {
		return true
	}
	if isParamOrDeref(recv, "txt") {
		// preceding store in the block: *txt = rxt
		blk := in.Block()
		for i := instrIndex(in) - 1; i >= 0; i-- {
			if s2 := storeToParamDeref(blk.Instrs[i], "txt"); s2 != nil {
				return isParamOrDeref(s2.Val, "rxt")
			}
		}
	}
	return false
}

func c06Repair(p *ana.Prog, r *ana.Result, hr, ut *ssa.Function) {
	// handleRequest: from the bump, every path onward passes the Before-true edge or the repair
	hname := ana.FuncName(hr)
	g := beforeGate(p, hr)
	var bumpIn ssa.Instruction
	ana.Instrs(hr, func(in ssa.Instruction) {
		if st := storeToParamDeref(in, "rxt"); st != nil {
			bumpIn = in
		}
	})
	if bumpIn == nil || len(g.Accept) == 0 {
		r.Violate("C06.repair", hname, "bump-then-test", p.Pos(hr.Pos()), "no rx<tx test after the receive-time bump in handleRequest")
	} else {
		// targets: leaving the bump's region = any jump back to a loop header / any consuming store; use: any instruction in a block not dominated by the bump's block
		bb := bumpIn.Block()
		s := &ana.Search{Fn: hr, Cut: func(e ana.Edge) bool { return g.Accept[e] }, Stop: isRepairStore, Target: func(in ssa.Instruction) bool {
			return !bb.Dominates(in.Block())
		}}
		if found, w := s.Run(bumpIn); found {
			r.Violate("C06.repair", hname, "bump-then-test-and-repair", posOf(p, bumpIn), "after bumping the receive time the transmit time is not re-checked/repaired on every path (reply transmit time may not be later than its receive time)", w...)
		} else {
			r.Ok("C06.repair", hname, "bump-then-test-and-repair", posOf(p, bumpIn), "every path after the bump passes rxt.Before(*txt) == true or the repair *txt = *rxt + 1ns")
		}
	}
	// updateTXTimestamp: before the map lookup
	uname := ana.FuncName(ut)
	g2 := beforeGate(p, ut)
	var lookup ssa.Instruction
	ana.Instrs(ut, func(in ssa.Instruction) {
		if l, ok := in.(*ssa.Lookup); ok && l.CommaOk {
			lookup = l
		}
	})
	if lookup == nil || len(g2.Accept) == 0 {
		r.Violate("C06.repair", uname, "test-before-store-access", p.Pos(ut.Pos()), "updateTXTimestamp does not test rxt.Before(*txt) before using the store")
		return
	}
	s := &ana.Search{Fn: ut, Cut: func(e ana.Edge) bool { return g2.Accept[e] }, Stop: isRepairStore, Target: func(in ssa.Instruction) bool { return in == lookup }}
	if found, w := s.Run(nil); found {
		r.Violate("C06.repair", uname, "test-and-repair-before-store-access", posOf(p, lookup), "the recorded transmit time can be stored without the rx<tx test-and-repair", w...)
	} else {
		r.Ok("C06.repair", uname, "test-and-repair-before-store-access", posOf(p, lookup), "the store is accessed only after rxt.Before(*txt) held or *txt was repaired to rxt + 1ns")
	}
}

// c06Update: replace on different tx timestamp, remove on equal.
func c06Update(p *ana.Prog, r *ana.Result, ut *ssa.Function) {
	fname := ana.FuncName(ut)
	isTxtCmp := func(c ana.Cmp) bool {
		for _, pr := range [][2]ssa.Value{{c.X, c.Y}, {c.Y, c.X}} {
			ch, root := fieldChain(pr[0])
			if ch == "buf[].txt" && typeNameOf(root.Type()) == "tssItem" && t64Of(pr[1], "txt") {
				return true
			}
		}
		return false
	}
	differ := ana.FindGate(p, ut, "buf[x].txt!=txt64", func(c ana.Cmp, isCmp bool, _ ssa.Value) (bool, bool) {
		if !isCmp || (c.Op != token.EQL && c.Op != token.NEQ) || !isTxtCmp(c) {
			return false, false
		}
		return true, c.Op == token.NEQ
	})
	same := ana.FindGate(p, ut, "buf[x].txt==txt64", func(c ana.Cmp, isCmp bool, _ ssa.Value) (bool, bool) {
		if !isCmp || (c.Op != token.EQL && c.Op != token.NEQ) || !isTxtCmp(c) {
			return false, false
		}
		return true, c.Op == token.EQL
	})
	if len(differ.Accept) == 0 {
		r.Violate("C06.update", fname, "tx-compare", p.Pos(ut.Pos()), "updateTXTimestamp does not compare the stored transmit time with the new one")
		return
	}
	nRepl, nRem := 0, 0
	ana.Instrs(ut, func(in ssa.Instruction) {
		switch x := in.(type) {
		case *ssa.Store:
			ch, root := fieldChain(x.Addr)
			if ch == "buf[].txt" && typeNameOf(root.Type()) == "tssItem" {
				nRepl++
				if !t64Of(x.Val, "txt") {
					r.Violate("C06.update", fname, "replacement-value", posOf(p, in), "the stored transmit time is replaced by something other than the (repaired) kernel transmit time")
					return
				}
				if ok, w := ana.MustPass(ut, nil, differ, func(i ssa.Instruction) bool { return i == in }, nil, nil); ok {
					r.Ok("C06.update", fname, "replace-when-different", posOf(p, in), "buf[x].txt <- txt64 only on the edge buf[x].txt != txt64")
				} else {
					r.Violate("C06.update", fname, "replace-when-different", posOf(p, in), "transmit time replaced without the difference test", w...)
				}
			}
			if ch == "len" && typeNameOf(root.Type()) == "tssItem" {
				nRem++
				if ok, w := ana.MustPass(ut, nil, same, func(i ssa.Instruction) bool { return i == in }, nil, nil); ok {
					r.Ok("C06.update", fname, "remove-when-no-update:len--", posOf(p, in), "an exchange is dropped from the record only when no updated transmit timestamp was read (stored == new)")
				} else {
					r.Violate("C06.update", fname, "remove-when-no-update:len--", posOf(p, in), "an exchange can be dropped although an updated transmit timestamp was read", w...)
				}
			}
		case *ssa.Call:
			if ana.CalleeName(&x.Call) == "container/heap.Remove" {
				nRem++
				if ok, w := ana.MustPass(ut, nil, same, func(i ssa.Instruction) bool { return i == in }, nil, nil); ok {
					r.Ok("C06.update", fname, "remove-when-no-update:item", posOf(p, in), "the client's record is removed only when no updated transmit timestamp was read")
				} else {
					r.Violate("C06.update", fname, "remove-when-no-update:item", posOf(p, in), "a client's record can be removed although an updated transmit timestamp was read", w...)
				}
			}
		}
	})
	if nRepl != 1 || nRem != 2 {
		r.Violate("C06.update", fname, "update-sites", p.Pos(ut.Pos()), fmt.Sprintf("expected one transmit-time replacement and two removal sites (whole item / one exchange), found %d / %d: an exchange without a kernel transmit timestamp must be dropped, not served", nRepl, nRem))
	}
	// x defined only under buf[i].rxt == rxt64
	okX := false
	ana.IfEdges(ut, func(iff *ssa.If, b *ssa.BasicBlock) {
		c, pos, isCmp := ana.AsCmp(iff.Cond)
		if !isCmp || c.Op != token.EQL || !pos {
			return
		}
		for _, pr := range [][2]ssa.Value{{c.X, c.Y}, {c.Y, c.X}} {
			ch, _ := fieldChain(pr[0])
			if ch == "buf[].rxt" && t64Of(pr[1], "rxt") {
				if iph, ok := indexOfAddrVal(pr[0]).(*ssa.Phi); ok && isScanIndex(iph) {
					okX = true
				}
			}
		}
	})
	if okX {
		r.Ok("C06.update", fname, "entry-selected-by-receive-time", p.Pos(ut.Pos()), "the entry updated is the one whose receive timestamp equals this exchange's rxt64")
	} else {
		r.Violate("C06.update", fname, "entry-selected-by-receive-time", p.Pos(ut.Pos()), "the entry to update is not selected by equality with this exchange's receive timestamp")
	}
}

// c06Isolation: every tssItem access is rooted at tss[clientID] or the fresh item.
func c06Isolation(p *ana.Prog, r *ana.Result, hr, ut *ssa.Function) {
	tss := p.Global("core/server", "tss")
	for _, fn := range []*ssa.Function{hr, ut} {
		fname := ana.FuncName(fn)
		bad := 0
		n := 0
		okRoot := func(v ssa.Value) bool {
			seen := map[ssa.Value]bool{}
			var rec func(v ssa.Value) bool
			rec = func(v ssa.Value) bool {
				if seen[v] {
					return true
				}
				seen[v] = true
				switch x := v.(type) {
				case *ssa.Phi:
					for _, e := range x.Edges {
						if ana.IsNilConst(e) {
							continue
						}
						if !rec(e) {
							return false
						}
					}
					return true
				case *ssa.Extract:
					if l, ok := x.Tuple.(*ssa.Lookup); ok && x.Index == 0 {
						if pr, ok := l.Index.(*ssa.Parameter); ok && pr.Name() == "clientID" && loadsGlobal(l.X, tss) {
							return true
						}
					}
				case *ssa.Alloc:
					return x.Heap && typeNameOf(x.Type()) == "tssItem"
				case *ssa.TypeAssert:
					// the evicted item popped from the queue (only its key and len are read)
					if c, _ := ana.CallOf(x.X); c != nil && ana.CalleeName(c.Common()) == "container/heap.Pop" {
						return true
					}
				}
				return false
			}
			return rec(v)
		}
		// hasEvicted: the value may be the item popped from the queue
		var hasEvicted func(v ssa.Value, seen map[ssa.Value]bool) bool
		hasEvicted = func(v ssa.Value, seen map[ssa.Value]bool) bool {
			if seen[v] {
				return false
			}
			seen[v] = true
			switch x := v.(type) {
			case *ssa.Phi:
				for _, e := range x.Edges {
					if hasEvicted(e, seen) {
						return true
					}
				}
			case *ssa.TypeAssert:
				if c, _ := ana.CallOf(x.X); c != nil && ana.CalleeName(c.Common()) == "container/heap.Pop" {
					return true
				}
			}
			return false
		}
		// onlyFresh: the value is the item allocated by this call on every path
		var onlyFresh func(v ssa.Value, seen map[ssa.Value]bool) bool
		onlyFresh = func(v ssa.Value, seen map[ssa.Value]bool) bool {
			if seen[v] {
				return true
			}
			seen[v] = true
			switch x := v.(type) {
			case *ssa.Phi:
				for _, e := range x.Edges {
					if !onlyFresh(e, seen) {
						return false
					}
				}
				return true
			case *ssa.Alloc:
				return x.Heap && typeNameOf(x.Type()) == "tssItem"
			}
			return false
		}
		ana.Instrs(fn, func(in ssa.Instruction) {
			// a new map entry is always a freshly allocated item: an evicted or looked-up item
			// would bring another client's timestamps with it
			if mu, ok := in.(*ssa.MapUpdate); ok && loadsGlobal(mu.Map, tss) {
				n++
				if onlyFresh(mu.Value, map[ssa.Value]bool{}) {
					r.Ok("C06.isolation", fname, "new-entry-is-fresh-item", posOf(p, in), "the item inserted for a new client is allocated by this call on every path")
				} else {
					bad++
					r.Violate("C06.isolation", fname, "new-entry-is-fresh-item", posOf(p, in), "the item inserted into the store for a new client is not on every path a freshly allocated one (a recycled item carries another client's stored timestamps, which are then served to the new client)")
				}
				return
			}
			fa, ok := in.(*ssa.FieldAddr)
			if !ok || typeNameOf(fa.X.Type()) != "tssItem" {
				return
			}
			n++
			if hasEvicted(fa.X, map[ssa.Value]bool{}) {
				fld := fieldNameOf(fa.X.Type(), fa.Field)
				readOnly := true
				for _, ref := range ana.Referrers(fa) {
					if u, ok := ref.(*ssa.UnOp); !ok || u.Op != token.MUL {
						if _, isDbg := ref.(*ssa.DebugRef); !isDbg {
							readOnly = false
						}
					}
				}
				if (fld != "key" && fld != "len") || !readOnly {
					bad++
					r.Violate("C06.isolation", fname, "evicted-item-only-key-and-len-read:"+fld, posOf(p, in), "the item evicted from the store is used beyond reading its key and length (its buffer belongs to the evicted client)")
					return
				}
			}
			if !okRoot(fa.X) {
				// tssQ[0].qval read (eviction test) is allowed: root is an element of tssQ
				if u, ok := fa.X.(*ssa.UnOp); ok {
					if ia, ok := u.X.(*ssa.IndexAddr); ok && loadsGlobal(ia.X, p.Global("core/server", "tssQ")) && fieldNameOf(fa.X.Type(), fa.Field) == "qval" {
						return
					}
				}
				bad++
				r.Violate("C06.isolation", fname, "item-root:"+fieldNameOf(fa.X.Type(), fa.Field), posOf(p, in), "per-client state is accessed through something other than tss[clientID] of this call (timestamps of one client could be served to another)")
			}
		})
		if bad == 0 {
			r.Ok("C06.isolation", fname, "item-root", p.Pos(fn.Pos()), fmt.Sprintf("all %d accesses to per-client items go through tss[clientID], the fresh item of this call, or the evicted item", n))
		}
		r.Floor("C06.isolation."+fn.Name(), n, 5)
	}
}

func c06Listener(p *ana.Prog, r *ana.Result, name string, scion bool) {
	fn := mustFunc(p, r, "core/server", name)
	if fn == nil {
		return
	}
	fname := ana.FuncName(fn)
	hrs := ana.CallsIn(fn, ana.Q("core/server.handleRequest"))
	uts := ana.CallsIn(fn, ana.Q("core/server.updateTXTimestamp"))
	if len(hrs) != 1 || len(uts) != 1 {
		r.Violate("C06.listener", fname, "call-sites", p.Pos(fn.Pos()), fmt.Sprintf("expected one handleRequest and one updateTXTimestamp call, found %d/%d", len(hrs), len(uts)))
		return
	}
	h, u := hrs[0].Common(), uts[0].Common()
	// clientID same SSA value
	if h.Args[0] == u.Args[0] {
		r.Ok("C06.listener", fname, "same-clientID", posOf(p, uts[0]), "handleRequest and updateTXTimestamp receive the same clientID value")
	} else {
		r.Violate("C06.listener", fname, "same-clientID", posOf(p, uts[0]), "the transmit timestamp is recorded under a different client id than the request was handled under")
	}
	// clientID provenance
	idOK := false
	if !scion {
		if c, _ := ana.CallOf(h.Args[0]); c != nil && ana.CalleeName(c.Common()) == "(net/netip.Addr).String" {
			if c2, _ := ana.CallOf(c.Common().Args[0]); c2 != nil && ana.CalleeName(c2.Common()) == "(net/netip.AddrPort).Addr" {
				if e, ok := c2.Common().Args[0].(*ssa.Extract); ok && e.Index == 3 {
					if rc, _ := e.Tuple.(*ssa.Call); rc != nil && ana.CalleeName(&rc.Call) == fnReadMsg {
						idOK = true
					}
				}
			}
		}
	} else {
		// SrcIA.String() + "," + srcAddr.String()
		if bo, ok := h.Args[0].(*ssa.BinOp); ok && bo.Op == token.ADD {
			if bo2, ok := bo.X.(*ssa.BinOp); ok && bo2.Op == token.ADD {
				c1, _ := ana.CallOf(bo2.X)
				c3, _ := ana.CallOf(bo.Y)
				if c1 != nil && c3 != nil && strings.HasSuffix(ana.AccessPath(c1.Common().Args[0]), "scionLayer.SrcIA") && ana.CalleeName(c3.Common()) == "(net/netip.Addr).String" {
					if c4, _ := ana.CallOf(c3.Common().Args[0]); c4 != nil && ana.CalleeName(c4.Common()) == "net/netip.AddrFromSlice" && strings.HasSuffix(ana.AccessPath(c4.Common().Args[0]), "scionLayer.RawSrcAddr") {
						idOK = true
					}
				}
			}
		}
	}
	if idOK {
		r.Ok("C06.listener", fname, "clientID-from-source", posOf(p, hrs[0]), "clientID derives from the source address (and ISD-AS) of this datagram")
	} else {
		r.Violate("C06.listener", fname, "clientID-from-source", posOf(p, hrs[0]), "the client id is not derived from this datagram's source address (state of different clients may be mixed, or one client split)")
	}
	// rxt: handleRequest gets &rxtAlloc, updateTXTimestamp gets *rxtAlloc
	rxtAlloc, _ := h.Args[2].(*ssa.Alloc)
	rxOK := false
	if rxtAlloc != nil {
		if ld, ok := u.Args[1].(*ssa.UnOp); ok && ld.Op == token.MUL && ld.X == ssa.Value(rxtAlloc) {
			rxOK = true
		}
	}
	if rxOK {
		r.Ok("C06.listener", fname, "same-receive-time", posOf(p, uts[0]), "updateTXTimestamp reads the receive time variable handleRequest may have bumped")
	} else {
		r.Violate("C06.listener", fname, "same-receive-time", posOf(p, uts[0]), "the transmit timestamp is recorded for a different receive time than the one handleRequest stored")
	}
	// txt1 selection
	txt0, _ := h.Args[3].(*ssa.Alloc)
	txt1, _ := u.Args[2].(*ssa.Alloc)
	rts := ana.CallsIn(fn, ana.Q("net/udp.ReadTXTimestamp"))
	var rt *ssa.Call
	for _, c := range rts {
		// the ReadTXTimestamp from which updateTXTimestamp is reachable without passing the read
		cc := c.(*ssa.Call)
		s := &ana.Search{Fn: fn, NoFacts: true, Stop: ana.IsCallTo(fnReadMsg), Target: func(in ssa.Instruction) bool { return in == uts[0].(ssa.Instruction) }}
		if found, _ := s.Run(cc); found {
			rt = cc
		}
	}
	if txt0 == nil || txt1 == nil || rt == nil {
		r.Violate("C06.listener", fname, "tx-time-selection", posOf(p, uts[0]), "UNDECIDED: software/kernel transmit time variables not recognised")
		return
	}
	kern := extractOf(rt, 0)
	errv := extractOf(rt, 2)
	idv := extractOf(rt, 1)
	// assignments to txt1: real stores and, where a merged value is stored, the edges on which
	// the merge takes each of its inputs
	isSoftVal := func(v ssa.Value) bool {
		ld, ok := v.(*ssa.UnOp)
		return ok && ld.Op == token.MUL && ld.X == ssa.Value(txt0)
	}
	softEdges, kernEdges := ana.EdgeSet{}, ana.EdgeSet{}
	otherVal := false
	kernStored := false
	softStores := map[ssa.Instruction]bool{}
	var otherStores []ssa.Instruction
	var expand func(ph *ssa.Phi, seen map[*ssa.Phi]bool)
	expand = func(ph *ssa.Phi, seen map[*ssa.Phi]bool) {
		if seen[ph] {
			return
		}
		seen[ph] = true
		for i, e := range ph.Edges {
			pred := ph.Block().Preds[i]
			for si, sc := range pred.Succs {
				if sc != ph.Block() {
					continue
				}
				switch {
				case kern != nil && e == ssa.Value(kern):
					kernEdges[ana.Edge{From: pred, Succ: si}] = true
					kernStored = true
				case isSoftVal(e):
					softEdges[ana.Edge{From: pred, Succ: si}] = true
				default:
					if q, ok := e.(*ssa.Phi); ok {
						expand(q, seen)
					} else {
						otherVal = true
					}
				}
			}
		}
	}
	ana.Instrs(fn, func(in ssa.Instruction) {
		st, ok := in.(*ssa.Store)
		if !ok || st.Addr != ssa.Value(txt1) {
			return
		}
		if ld, isLd := st.Val.(*ssa.UnOp); isLd && ld.Op == token.MUL && ld.X == ssa.Value(txt1) {
			return // the variable assigned to itself (a helper's result written back): no change
		}
		switch {
		case kern != nil && st.Val == ssa.Value(kern):
			kernStored = true
		case isSoftVal(st.Val):
			softStores[in] = true
		default:
			if ph, ok := st.Val.(*ssa.Phi); ok && ph.Block().Dominates(st.Block()) {
				expand(ph, map[*ssa.Phi]bool{})
			} else {
				otherStores = append(otherStores, in)
			}
		}
	})
	// a placeholder value (e.g. the zero time of a failed read) is harmless when the kernel or the
	// software time replaces it on every path to the call
	for _, o := range otherStores {
		s := &ana.Search{Fn: fn, Target: func(in ssa.Instruction) bool { return in == uts[0].(ssa.Instruction) },
			Stop: func(in ssa.Instruction) bool {
				st, ok := in.(*ssa.Store)
				return ok && st.Addr == ssa.Value(txt1) && (softStores[in] || (kern != nil && st.Val == ssa.Value(kern)))
			}}
		if found, _ := s.Run(o); found {
			otherVal = true
		}
	}
	isSoftStore := func(in ssa.Instruction) bool { return softStores[in] }
	good := ana.FindGate(p, fn, "tx-timestamp-read-ok", func(c ana.Cmp, isCmp bool, _ ssa.Value) (bool, bool) {
		if !isCmp || (c.Op != token.EQL && c.Op != token.NEQ) {
			return false, false
		}
		if errv != nil && c.X == ssa.Value(errv) && ana.IsNilConst(c.Y) {
			return true, c.Op == token.NEQ // accept = error present
		}
		if idv != nil && c.X == ssa.Value(idv) {
			if ph, ok := c.Y.(*ssa.Phi); ok && ph.Comment == "txid" || true {
				return true, c.Op == token.NEQ // accept = id mismatch
			}
		}
		return false, false
	})
	isUT := func(in ssa.Instruction) bool { return in == uts[0].(ssa.Instruction) }
	// (a) on err != nil or id != txid the software time is handed over
	okA := true
	for e := range good.Accept {
		s := &ana.Search{Fn: fn, Stop: isSoftStore, StopEdge: func(e ana.Edge) bool { return softEdges[e] }, Target: isUT}
		if found, _ := runFromBlockEdge(s, e); found {
			okA = false
		}
	}
	// (b) the software time is handed over only on those edges
	s := &ana.Search{Fn: fn, Cut: func(e ana.Edge) bool { return good.Accept[e] }, Target: isSoftStore, TargetEdge: func(e ana.Edge) bool { return softEdges[e] }, Stop: isUT}
	foundB, w := s.Run(rt)
	if otherVal {
		okA = false
		w = append(w, "a value that is neither the kernel nor the software transmit time is assigned to the variable handed to updateTXTimestamp")
	}
	if kernStored && okA && !foundB && len(good.Accept) >= 2 {
		r.Ok("C06.listener", fname, "tx-time-selection", posOf(p, rt), "updateTXTimestamp gets the kernel transmit timestamp when it was read without error and with the expected id, otherwise the software timestamp handleRequest used")
	} else {
		r.Violate("C06.listener", fname, "tx-time-selection", posOf(p, rt), fmt.Sprintf("the transmit time handed to updateTXTimestamp is not (kernel time iff read ok and id matches, else software time) [kernel stored=%v, fallback on failure=%v, fallback only on failure=%v]", kernStored, okA, !foundB), w...)
	}
}
