package rules

import (
	"fmt"
	"go/token"
	"go/types"
	"strings"

	"golang.org/x/tools/go/ssa"

	"verif/internal/ana"
)

func init() { All["C12"] = checkC12 }

var c12Protected = map[string]bool{"keys": true, "currentID": true, "generatedAt": true}

func isProviderField(in ssa.Instruction) (string, bool) {
	fa, ok := in.(*ssa.FieldAddr)
	if !ok || typeNameOf(fa.X.Type()) != "Provider" {
		return "", false
	}
	n := fieldNameOf(fa.X.Type(), fa.Field)
	return n, c12Protected[n]
}

// boolCallGate: edges where a boolean call result (callee, with args satisfying pred) has value want.
func boolCallGate(p *ana.Prog, fn *ssa.Function, name, callee string, pred func(*ssa.CallCommon) bool, want bool) *ana.Gate {
	return ana.FindGate(p, fn, name, func(_ ana.Cmp, isCmp bool, v ssa.Value) (bool, bool) {
		if isCmp {
			return false, false
		}
		c, _ := ana.CallOf(v)
		if c == nil || ana.CalleeName(c.Common()) != callee || (pred != nil && !pred(c.Common())) {
			return false, false
		}
		return true, want
	})
}

// isTimeNow: v is the result of time.Now(), or a parameter for which every call site of its
// function passes such a value (the current time handed down to a helper).
var c12Prog *ana.Prog

func isTimeNow(v ssa.Value) bool { return isTimeNowN(v, 0) }

func isTimeNowN(v ssa.Value, depth int) bool {
	if c, _ := ana.CallOf(v); c != nil && ana.CalleeName(c.Common()) == "time.Now" {
		return true
	}
	if in, isIn := v.(ssa.Instruction); isIn && depth < 6 {
		if u := ana.UniqueReaching(in.Parent(), v); u != nil && u != v {
			return isTimeNowN(u, depth+1)
		}
	}
	par, ok := v.(*ssa.Parameter)
	if !ok || depth > 3 || c12Prog == nil {
		return false
	}
	fn := par.Parent()
	idx := -1
	for i, q := range fn.Params {
		if q == par {
			idx = i
		}
	}
	if idx < 0 {
		return false
	}
	sites := 0
	for _, g := range c12Prog.AllFuncs {
		for _, b := range g.Blocks {
			for _, in := range b.Instrs {
				ci, ok := in.(ssa.CallInstruction)
				if !ok {
					// the function used as a value: callers are not enumerable
					for _, op := range in.Operands(nil) {
						if op != nil && *op == ssa.Value(fn) {
							return false
						}
					}
					continue
				}
				cc := ci.Common()
				if cc.StaticCallee() != fn {
					for _, a := range cc.Args {
						if a == ssa.Value(fn) {
							return false
						}
					}
					continue
				}
				sites++
				if idx >= len(cc.Args) || !isTimeNowN(cc.Args[idx], depth+1) {
					return false
				}
			}
		}
	}
	return sites > 0
}

// onlyReadOnlyCalls: every call that receives the address of a is a repo function that stores
// nothing through that parameter.
func onlyReadOnlyCalls(a *ssa.Alloc) bool {
	for _, ref := range ana.Referrers(a) {
		ci, ok := ref.(ssa.CallInstruction)
		if !ok {
			continue
		}
		f := ci.Common().StaticCallee()
		if f == nil || f.Blocks == nil {
			return false
		}
		for i, arg := range ci.Common().Args {
			if arg != ssa.Value(a) || i >= len(f.Params) {
				continue
			}
			par := f.Params[i]
			writes := false
			ana.Instrs(f, func(in ssa.Instruction) {
				switch y := in.(type) {
				case *ssa.Store:
					if rootAlloc(y.Addr) == ssa.Value(par) {
						writes = true
					}
				case ssa.CallInstruction:
					for _, a2 := range y.Common().Args {
						if rootAlloc(a2) == ssa.Value(par) {
							if _, isPtr := a2.Type().Underlying().(*types.Pointer); isPtr {
								writes = true
							}
						}
					}
				}
			})
			if writes {
				return false
			}
		}
	}
	return true
}

// currentKeyLookup: v is p.keys[p.currentID] (plain or comma-ok form); returns the lookup.
func currentKeyLookup(v ssa.Value) *ssa.Lookup {
	if ex, ok := v.(*ssa.Extract); ok && ex.Index == 0 {
		v = ex.Tuple
	}
	l, ok := v.(*ssa.Lookup)
	if !ok {
		return nil
	}
	c1, _ := fieldChain(l.X)
	c2, _ := fieldChain(l.Index)
	if c1 == "keys" && c2 == "currentID" {
		return l
	}
	return nil
}

func checkC12(p *ana.Prog, r *ana.Result) {
	r.Explain("C12 (structural necessary conditions) for ntske.Provider: lockset - every method that touches keys/currentID/generatedAt either takes p.mu first and releases it by defer, or is generateNext, which is called only from such holders or from the constructor on a not yet shared object; identifiers never repeat - the only store to currentID is currentID+1 behind the MaxInt overflow panic and the only map insert is keys[currentID] after it; validity gates - Get returns (key,true) only through the map hit and IsValidAt(time.Now()) == true, IsValidAt is false exactly on t.Before(NotBefore) || t.After(NotAfter), Current returns without generating only through IsValidAt(now) and !generatedAt.Add(24h).Before(now) and always returns keys[currentID] read after that decision, generateNext stamps generatedAt = NotBefore = time.Now() and NotAfter = generatedAt + 72h, expired keys are deleted only under !IsValidAt; the constants are 24 h and 72 h.")
	r.Undecided("the derived arithmetic (usable >= 2 days, <= 3 days), wall-clock steps, behaviour over days")
	c12Prog = p
	c12Consts(p, r)
	c12Lock(p, r)
	c12IDs(p, r)
	c12Valid(p, r)
}

func c12Consts(p *ana.Prog, r *ana.Result) {
	for _, c := range []struct {
		name string
		want int64
		desc string
	}{{"keyValidity", 72 * 3600 * 1e9, "3 days"}, {"keyRenewalInterval", 24 * 3600 * 1e9, "24 h"}} {
		nc := p.Const("net/ntske", c.name)
		if nc == nil {
			r.Broken("constant net/ntske.%s does not resolve", c.name)
			continue
		}
		v, _ := ana.ConstInt(nc.Value)
		if v == c.want {
			r.Ok("C12.valid", "net/ntske", "const:"+c.name, p.Pos(nc.Pos()), c.name+" == "+c.desc)
		} else {
			r.Violate("C12.valid", "net/ntske", "const:"+c.name, p.Pos(nc.Pos()), fmt.Sprintf("%s is %d ns, the property states %s", c.name, v, c.desc))
		}
	}
}

func c12Lock(p *ana.Prog, r *ana.Result) {
	holders := map[*ssa.Function]bool{}
	var unlocked []*ssa.Function
	nAcc := 0
	for _, fn := range p.AllFuncs {
		if fn.Pkg != p.SSAPkg("net/ntske") {
			continue
		}
		var first ssa.Instruction
		ana.Instrs(fn, func(in ssa.Instruction) {
			if _, ok := isProviderField(in); ok && first == nil {
				first = in
			}
		})
		if first == nil {
			continue
		}
		nAcc++
		fname := ana.FuncName(fn)
		r.Saw(fname)
		b0 := fn.Blocks[0]
		lockIdx, deferIdx := -1, -1
		isMu := func(v ssa.Value) bool {
			fa, ok := v.(*ssa.FieldAddr)
			return ok && typeNameOf(fa.X.Type()) == "Provider" && fieldNameOf(fa.X.Type(), fa.Field) == "mu"
		}
		for i, in := range b0.Instrs {
			if c, ok := in.(*ssa.Call); ok && ana.CalleeName(&c.Call) == fnLock && isMu(c.Call.Args[0]) && lockIdx < 0 {
				lockIdx = i
			}
			if d, ok := in.(*ssa.Defer); ok && ana.CalleeName(&d.Call) == fnUnlock && isMu(d.Call.Args[0]) && deferIdx < 0 {
				deferIdx = i
			}
		}
		if lockIdx >= 0 && deferIdx > lockIdx {
			ok := true
			ana.Instrs(fn, func(in ssa.Instruction) {
				if _, acc := isProviderField(in); acc && in.Block() == b0 && instrIndex(in) < deferIdx {
					ok = false
				}
				if c, isC := in.(*ssa.Call); isC && ana.CalleeName(&c.Call) == fnUnlock {
					ok = false
				}
				if _, isGo := in.(*ssa.Go); isGo {
					ok = false
				}
			})
			if ok {
				holders[fn] = true
				r.Ok("C12.lock", fname, "holder", p.Pos(fn.Pos()), "p.mu.Lock(); defer p.mu.Unlock() precede every access to keys/currentID/generatedAt")
				continue
			}
		}
		unlocked = append(unlocked, fn)
	}
	r.Floor("C12.lock.accessors", nAcc, 3)
	// unlocked accessors: only called from holders, or from a constructor on a fresh Provider
	for _, fn := range unlocked {
		fname := ana.FuncName(fn)
		full := fn.Object()
		// constructor: creates the Provider itself (fresh alloc) -> fine
		fresh := false
		ana.Instrs(fn, func(in ssa.Instruction) {
			if a, ok := in.(*ssa.Alloc); ok && a.Heap && typeNameOf(a.Type()) == "Provider" {
				fresh = true
			}
		})
		if fresh && fn.Signature.Recv() == nil {
			r.Ok("C12.lock", fname, "constructor", p.Pos(fn.Pos()), "operates on a Provider it has just allocated (not yet shared)")
			continue
		}
		if full == nil {
			r.Violate("C12.lock", fname, "unlocked-accessor", p.Pos(fn.Pos()), "anonymous function touches provider state without the lock")
			continue
		}
		okCallers := true
		nCallers := 0
		for _, caller := range p.AllFuncs {
			for _, c := range ana.CallsIn(caller, ana.CalleeName(&ssa.CallCommon{Value: fn})) {
				nCallers++
				if holders[caller] {
					continue
				}
				// constructor calling on its fresh alloc
				if a, ok := c.Common().Args[0].(*ssa.Alloc); ok && a.Heap {
					continue
				}
				okCallers = false
				r.Violate("C12.lock", ana.FuncName(caller), "unlocked-call:"+fn.Name(), posOf(p, c), fn.Name()+" touches keys/currentID/generatedAt and is called without p.mu held")
			}
		}
		exported := fn.Object() != nil && fn.Object().Exported()
		if exported {
			r.Violate("C12.lock", fname, "exported-unlocked-accessor", p.Pos(fn.Pos()), "exported method accesses provider state without taking p.mu (data race under concurrent NTP/NTS-KE use)")
		} else if okCallers && nCallers > 0 {
			r.Ok("C12.lock", fname, "called-under-lock", p.Pos(fn.Pos()), fmt.Sprintf("unexported; all %d call sites are inside lock holders or the constructor", nCallers))
		}
	}
	// the fields are unexported and no function outside the package can name them (type checker); method values not taken
}

func c12IDs(p *ana.Prog, r *ana.Result) {
	nStore, nIns := 0, 0
	for _, fn := range p.AllFuncs {
		if fn.Pkg != p.SSAPkg("net/ntske") {
			continue
		}
		fname := ana.FuncName(fn)
		ana.Instrs(fn, func(in ssa.Instruction) {
			switch x := in.(type) {
			case *ssa.Store:
				ch, root := fieldChain(x.Addr)
				if ch != "currentID" || typeNameOf(root.Type()) != "Provider" {
					return
				}
				nStore++
				// the new identifier may travel through a local (key.ID = currentID + 1; currentID = key.ID)
				bo, ok := resolveLocal(x.Val).(*ssa.BinOp)
				k := int64(0)
				if ok {
					k, _ = ana.ConstInt(bo.Y)
				}
				chx := ""
				if ok {
					chx, _ = fieldChain(bo.X)
				}
				if !ok || bo.Op != token.ADD || k != 1 || chx != "currentID" {
					r.Violate("C12.ids", fname, "id-store-form", posOf(p, in), "currentID is assigned something other than currentID + 1 (identifiers may repeat)")
					return
				}
				// overflow guard: every path passes the != MaxInt edge
				g := ana.FindGate(p, fn, "currentID!=MaxInt", func(c ana.Cmp, isCmp bool, _ ssa.Value) (bool, bool) {
					if !isCmp || (c.Op != token.EQL && c.Op != token.NEQ) {
						return false, false
					}
					if ch, _ := fieldChain(c.X); ch != "currentID" {
						return false, false
					}
					kk, ok := ana.ConstInt(c.Y)
					if !ok || kk != 1<<63-1 {
						return false, false
					}
					return true, c.Op == token.NEQ
				})
				if len(g.Accept) > 0 {
					if okp, w := ana.MustPass(fn, nil, g, func(i ssa.Instruction) bool { return i == in }, nil, nil); okp {
						r.Ok("C12.ids", fname, "id-increment-guarded", posOf(p, in), "currentID = currentID + 1 only behind currentID != MaxInt (wrap-around panics)")
					} else {
						r.Violate("C12.ids", fname, "id-increment-guarded", posOf(p, in), "currentID can wrap around", w...)
					}
				} else {
					r.Violate("C12.ids", fname, "id-increment-guarded", posOf(p, in), "currentID + 1 is not protected against wrap-around")
				}
			case *ssa.MapUpdate:
				ch, root := fieldChain(x.Map)
				if ch != "keys" || typeNameOf(root.Type()) != "Provider" {
					return
				}
				nIns++
				chk, _ := fieldChain(x.Key)
				// key must be currentID loaded after the increment store in this function
				after := false
				// ... or the very value that this function stores into currentID (a local holding currentID+1)
				ana.Instrs(fn, func(j ssa.Instruction) {
					if st, ok := j.(*ssa.Store); ok {
						if c2, _ := fieldChain(st.Addr); c2 == "currentID" && (st.Val == x.Key || resolveLocal(st.Val) == resolveLocal(x.Key)) {
							after = true
						}
					}
				})
				if chk == "currentID" {
					ana.Instrs(fn, func(j ssa.Instruction) {
						if st, ok := j.(*ssa.Store); ok {
							if c2, _ := fieldChain(st.Addr); c2 == "currentID" {
								if ld, ok := x.Key.(*ssa.UnOp); ok && st.Block().Dominates(ld.Block()) {
									after = true
								}
							}
						}
					})
				}
				if after {
					r.Ok("C12.ids", fname, "insert-under-new-id", posOf(p, in), "keys[currentID] = key with currentID read after its increment")
				} else {
					r.Violate("C12.ids", fname, "insert-under-new-id", posOf(p, in), "a key is inserted under something other than the freshly incremented currentID (an existing key can be overwritten / an id reused)")
				}
				// key.ID == currentID
			}
		})
	}
	if nStore != 1 || nIns != 1 {
		r.Violate("C12.ids", "net/ntske", "id-sites", "-", fmt.Sprintf("expected exactly one currentID store and one keys insert, found %d / %d", nStore, nIns))
	}
}

func c12Valid(p *ana.Prog, r *ana.Result) {
	// IsValidAt truth shape: returns false iff t.Before(NotBefore) || t.After(NotAfter)
	iv := mustFunc(p, r, "net/ntske", "(*Key).IsValidAt")
	if iv != nil {
		fname := ana.FuncName(iv)
		// exact truth table over the two comparisons (independent of how the boolean expression is written)
		kb := "call:(time.Time).Before(t,k.Validity.NotBefore)"
		ka := "call:(time.Time).After(t,k.Validity.NotAfter)"
		res := ana.RunTable(iv, []ana.TableInput{{Path: kb, Values: []int64{0, 1}}, {Path: ka, Values: []int64{0, 1}}})
		ok := res.Err == nil
		var wit []string
		if res.Err != nil {
			wit = []string{"UNDECIDED: " + res.Err.Error()}
		} else {
			for i := 0; i < res.N; i++ {
				pt := res.Point(i)
				want := int64(0)
				if pt[0] == 0 && pt[1] == 0 {
					want = 1
				}
				if res.Panics[i] || res.Returns[0][i] != want {
					ok = false
					wit = append(wit, fmt.Sprintf("t.Before(NotBefore)=%v t.After(NotAfter)=%v -> %d", pt[0] == 1, pt[1] == 1, res.Returns[0][i]))
				}
			}
		}
		if ok {
			r.Ok("C12.valid", fname, "validity-predicate", p.Pos(iv.Pos()), "IsValidAt(t) is true exactly when !t.Before(NotBefore) && !t.After(NotAfter)")
		} else {
			r.Violate("C12.valid", fname, "validity-predicate", p.Pos(iv.Pos()), "IsValidAt is not `!t.Before(NotBefore) && !t.After(NotAfter)` (e.g. Before/After or the bounds are swapped)", wit...)
		}
	}
	// Get
	get := mustFunc(p, r, "net/ntske", "(*Provider).Get")
	if get != nil {
		fname := ana.FuncName(get)
		okRet := func(in ssa.Instruction) bool {
			ret, ok := in.(*ssa.Return)
			if !ok || (get.Recover != nil && ret.Block() == get.Recover) {
				return false
			}
			v := ret.Results[1]
			if u, isU := v.(*ssa.UnOp); isU && u.Op == token.MUL {
				if a, isA := u.X.(*ssa.Alloc); isA {
					vals := ana.ReachingStores(get, a)(u)
					for _, sv := range vals {
						if b, isC := ana.ConstBool(sv); !isC || b {
							return true
						}
					}
					return false
				}
			}
			b, isC := ana.ConstBool(v)
			return !isC || b
		}
		valid := boolCallGate(p, get, "IsValidAt(time.Now())", ana.Q("(*net/ntske.Key).IsValidAt"), func(c *ssa.CallCommon) bool { return isTimeNow(c.Args[1]) }, true)
		hit := ana.FindGate(p, get, "map-hit", func(_ ana.Cmp, isCmp bool, v ssa.Value) (bool, bool) {
			if isCmp {
				return false, false
			}
			e, ok := v.(*ssa.Extract)
			if !ok || e.Index != 1 {
				return false, false
			}
			l, ok := e.Tuple.(*ssa.Lookup)
			if !ok {
				return false, false
			}
			ch, _ := fieldChain(l.X)
			return ch == "keys" && ana.AccessPath(l.Index) == "id", true
		})
		checkGates(p, r, "C12.valid", get, nil, okRet, nil, "return(key,true)", []gateSpec{
			{name: "keys[id]-present", gate: hit},
			{name: "key.IsValidAt(time.Now())", gate: valid},
		})
		// the key validated is the key looked up and returned
		_ = fname
	}
	// Current
	cur := mustFunc(p, r, "net/ntske", "(*Provider).Current")
	if cur != nil {
		fname := ana.FuncName(cur)
		gens := ana.CallsIn(cur, ana.Q("(*net/ntske.Provider).generateNext"))
		if len(gens) < 1 {
			r.Violate("C12.valid", fname, "generate-site", p.Pos(cur.Pos()), fmt.Sprintf("expected a generateNext call in Current, found %d", len(gens)))
		} else {
			isGen := func(in ssa.Instruction) bool {
				for _, g := range gens {
					if in == g.(ssa.Instruction) {
						return true
					}
				}
				return false
			}
			isRet := func(in ssa.Instruction) bool {
				ret, ok := in.(*ssa.Return)
				return ok && (cur.Recover == nil || ret.Block() != cur.Recover)
			}
			var nowVal ssa.Value
			valid := boolCallGate(p, cur, "keys[currentID].IsValidAt(now)", ana.Q("(*net/ntske.Key).IsValidAt"), func(c *ssa.CallCommon) bool {
				if !isTimeNow(c.Args[1]) {
					return false
				}
				nowVal = c.Args[1]
				// receiver: copy of keys[currentID]
				if a, ok := c.Args[0].(*ssa.Alloc); ok {
					for _, ref := range ana.Referrers(a) {
						if st, ok := ref.(*ssa.Store); ok && st.Addr == ssa.Value(a) {
							if l := currentKeyLookup(st.Val); l != nil {
								return true
							}
						}
					}
				}
				return false
			}, true)
			// generatedAt+24h earlier than now (Before / After spelling) must not hold
			fresh := ana.FindGate(p, cur, "!generatedAt.Add(24h).Before(now)", func(_ ana.Cmp, isCmp bool, v ssa.Value) (bool, bool) {
				if isCmp {
					return false, false
				}
				earlier, later, _, ok := strictOrder(v)
				if !ok {
					return false, false
				}
				add, _ := ana.CallOf(earlier)
				if add == nil || ana.CalleeName(add.Common()) != "(time.Time).Add" {
					return false, false
				}
				ch, _ := fieldChain(add.Common().Args[0])
				k, _ := ana.ConstInt(add.Common().Args[1])
				if ch == "generatedAt" && k == 24*3600*1e9 && isTimeNow(later) && (nowVal == nil || later == nowVal) {
					return true, false
				}
				return false, false
			})
			checkGates(p, r, "C12.valid", cur, nil, isRet, isGen, "return-without-generating", []gateSpec{
				{name: "current-key-valid-now", gate: valid},
				{name: "generated-within-24h", gate: fresh},
			})
			// the returned key: on every way to a return it is keys[currentID] as looked up with no
			// generateNext between the lookup and the return, or the result of generateNext (which
			// returns the key it has just installed)
			okLoad, nRet := true, 0
			var why string
			// kill: stores that overwrite the local through which a looked-up value travels (a path
			// through one of them does not carry that value)
			var kill map[*ssa.Alloc]bool
			reachesFrom := func(from ssa.Instruction, toEdge *ana.Edge, toInstr ssa.Instruction) bool {
				s := &ana.Search{Fn: cur, NoFacts: true}
				if len(kill) > 0 {
					s.Stop = func(x ssa.Instruction) bool {
						st, ok := x.(*ssa.Store)
						if !ok || x == from {
							return false
						}
						a, isA := st.Addr.(*ssa.Alloc)
						return isA && kill[a]
					}
				}
				if toEdge != nil {
					e := *toEdge
					s.TargetEdge = func(x ana.Edge) bool { return x == e }
				} else {
					s.Target = func(x ssa.Instruction) bool { return x == toInstr }
				}
				found, _ := s.Run(from)
				return found
			}
			var leaf func(v ssa.Value, e *ana.Edge, at ssa.Instruction, depth int)
			leaf = func(v ssa.Value, e *ana.Edge, at ssa.Instruction, depth int) {
				if depth > 8 {
					okLoad, why = false, "merge structure too deep"
					return
				}
				if u := ana.UniqueReaching(cur, v); u != nil {
					v = u
				}
				if ph, ok := v.(*ssa.Phi); ok {
					for i, x := range ph.Edges {
						pred := ph.Block().Preds[i]
						for si, sc := range pred.Succs {
							if sc == ph.Block() {
								ed := ana.Edge{From: pred, Succ: si}
								leaf(x, &ed, nil, depth+1)
							}
						}
					}
					return
				}
				if ld, ok := v.(*ssa.UnOp); ok && ld.Op == token.MUL {
					if a, ok := ld.X.(*ssa.Alloc); ok {
						// a local holding the key: every store that reaches this load
						for _, sv := range ana.ReachingStores(cur, a)(ld) {
							if sv == ana.Unknown && onlyReadOnlyCalls(a) {
								continue // handed to methods that only read it (IsValidAt)
							}
							if sv == ana.Zero || sv == ana.Unknown {
								okLoad, why = false, "the returned variable may be unset"
								continue
							}
							// the value rests in the local from the store to this load: no generation may
							// happen in between (unless the local is overwritten after it)
							nSt := 0
							for _, ref := range ana.Referrers(a) {
								st, isSt := ref.(*ssa.Store)
								if !isSt || st.Addr != ssa.Value(a) || st.Val != sv {
									continue
								}
								nSt++
								for _, g := range gens {
									kill = map[*ssa.Alloc]bool{}
									through := reachesFrom(st, nil, g.(ssa.Instruction))
									kill = map[*ssa.Alloc]bool{a: true}
									if through && reachesFrom(g.(ssa.Instruction), nil, ld) {
										okLoad, why = false, "a key looked up before generateNext ran can be returned after it"
									}
									kill = nil
								}
								leaf(sv, nil, st, depth+1)
							}
							if nSt == 0 {
								leaf(sv, e, at, depth+1)
							}
						}
						return
					}
				}
				if c, _ := ana.CallOf(v); c != nil && ana.CalleeName(c.Common()) == ana.Q("(*net/ntske.Provider).generateNext") {
					return // the freshly installed key (generateNext: returns-installed-key)
				}
				if l := currentKeyLookup(v); l != nil {
					for _, g := range gens {
						if reachesFrom(l, nil, g.(ssa.Instruction)) && reachesFrom(g.(ssa.Instruction), e, at) {
							// a generation between this lookup and the return of its value
							if e != nil || true {
								okLoad, why = false, "a key looked up before generateNext ran can be returned after it"
							}
						}
					}
					return
				}
				okLoad, why = false, "the returned value is neither keys[currentID] nor the result of generateNext: "+ana.ValueString(v)
			}
			ana.Instrs(cur, func(in ssa.Instruction) {
				ret, ok := in.(*ssa.Return)
				if !ok || (cur.Recover != nil && ret.Block() == cur.Recover) || len(ret.Results) == 0 {
					return
				}
				nRet++
				leaf(ret.Results[0], nil, ret, 0)
			})
			if okLoad && nRet > 0 {
				r.Ok("C12.valid", fname, "returns-current-after-decision", p.Pos(cur.Pos()), "Current returns keys[currentID] read with no generation in between, or the key generateNext has just installed")
			} else {
				r.Violate("C12.valid", fname, "returns-current-after-decision", p.Pos(cur.Pos()), "Current does not always return the current key as it is after the renewal decision (a stale/expired key can be handed out): "+why)
			}
		}
	}
	// generateNext
	gn := mustFunc(p, r, "net/ntske", "(*Provider).generateNext")
	if gn != nil {
		fname := ana.FuncName(gn)
		var genAt, nb, na *ssa.Store
		ana.Instrs(gn, func(in ssa.Instruction) {
			st, ok := in.(*ssa.Store)
			if !ok {
				return
			}
			ch, _ := fieldChain(st.Addr)
			switch {
			case ch == "generatedAt":
				genAt = st
			case strings.HasSuffix(ch, "Validity.NotBefore"):
				nb = st
			case strings.HasSuffix(ch, "Validity.NotAfter"):
				na = st
			}
		})
		// the key inserted into the table: its window read off the value that is stored
		var nbVal, naVal ssa.Value
		ana.Instrs(gn, func(in ssa.Instruction) {
			if mu, ok := in.(*ssa.MapUpdate); ok {
				if ch, _ := fieldChain(mu.Map); ch == "keys" {
					nbVal = localStructField(mu.Value, []string{"Validity", "NotBefore"}, 0)
					naVal = localStructField(mu.Value, []string{"Validity", "NotAfter"}, 0)
				}
			}
		})
		// a generateNext that returns a key returns the one it installed
		if gn.Signature.Results().Len() == 1 {
			var installed ssa.Value
			ana.Instrs(gn, func(in ssa.Instruction) {
				if mu, ok := in.(*ssa.MapUpdate); ok {
					if ch, _ := fieldChain(mu.Map); ch == "keys" {
						installed = mu.Value
					}
				}
			})
			same := func(a, b ssa.Value) bool {
				if a == b {
					return true
				}
				la, ok1 := a.(*ssa.UnOp)
				lb, ok2 := b.(*ssa.UnOp)
				if ok1 && ok2 && la.Op == token.MUL && lb.Op == token.MUL && la.X == lb.X {
					// two loads of one local: nothing stored to it in between
					al, isAl := la.X.(*ssa.Alloc)
					if !isAl {
						return false
					}
					sa, sb := ana.ReachingStores(gn, al)(la), ana.ReachingStores(gn, al)(lb)
					if len(sa) != len(sb) {
						return false
					}
					for i := range sa {
						if sa[i] != sb[i] {
							return false
						}
					}
					return true
				}
				return false
			}
			okRet, nRet := installed != nil, 0
			ana.Instrs(gn, func(in ssa.Instruction) {
				if ret, ok := in.(*ssa.Return); ok && len(ret.Results) == 1 {
					nRet++
					if installed == nil || !same(ret.Results[0], installed) {
						okRet = false
					}
				}
			})
			if okRet && nRet > 0 {
				r.Ok("C12.valid", fname, "returns-installed-key", p.Pos(gn.Pos()), "generateNext returns the key it has just stored under the new identifier")
			} else {
				r.Violate("C12.valid", fname, "returns-installed-key", p.Pos(gn.Pos()), "generateNext returns something other than the key it installed (Current would hand out a key that is not the current one)")
			}
		}
		okGen := genAt != nil && isTimeNow(genAt.Val)
		okNB := false
		if nb == nil && nbVal != nil && genAt != nil {
			if ch, _ := fieldChain(nbVal); ch == "generatedAt" || nbVal == genAt.Val {
				okNB = true
			}
		}
		okNAres := false
		if na == nil && naVal != nil && genAt != nil {
			if add, _ := ana.CallOf(naVal); add != nil && ana.CalleeName(add.Common()) == "(time.Time).Add" {
				ch, _ := fieldChain(add.Common().Args[0])
				k, _ := ana.ConstInt(add.Common().Args[1])
				okNAres = (ch == "generatedAt" || add.Common().Args[0] == genAt.Val) && k == 72*3600*1e9
			}
		}
		if nb != nil {
			ch, _ := fieldChain(nb.Val)
			okNB = ch == "generatedAt" || (genAt != nil && nb.Val == genAt.Val)
			if ld, ok := nb.Val.(*ssa.UnOp); ok && genAt != nil && !genAt.Block().Dominates(ld.Block()) {
				okNB = false
			}
		}
		okNA := false
		if na != nil {
			if add, _ := ana.CallOf(na.Val); add != nil && ana.CalleeName(add.Common()) == "(time.Time).Add" {
				ch, _ := fieldChain(add.Common().Args[0])
				k, _ := ana.ConstInt(add.Common().Args[1])
				okNA = (ch == "generatedAt" || (genAt != nil && add.Common().Args[0] == genAt.Val)) && k == 72*3600*1e9
			}
		}
		if okGen {
			r.Ok("C12.valid", fname, "generatedAt<-now", posOf(p, genAt), "p.generatedAt <- time.Now() at generation")
		} else {
			r.Violate("C12.valid", fname, "generatedAt<-now", p.Pos(gn.Pos()), "generation time is not stamped with the current time (a key handed out can be older than the renewal interval, or already expired after an idle gap)")
		}
		okNA = okNA || okNAres
		if okNB && okNA {
			at := p.Pos(gn.Pos())
			if na != nil {
				at = posOf(p, na)
			}
			r.Ok("C12.valid", fname, "validity-window", at, "NotBefore <- generatedAt, NotAfter <- generatedAt + 72h")
		} else {
			r.Violate("C12.valid", fname, "validity-window", p.Pos(gn.Pos()), fmt.Sprintf("validity window is not [generatedAt, generatedAt + 72h] (NotBefore ok=%v, NotAfter ok=%v)", okNB, okNA))
		}
		// deletes only under !IsValidAt(tNow)
		nDel := 0
		ana.Instrs(gn, func(in ssa.Instruction) {
			d := isBuiltinCall(in, "delete")
			if d == nil {
				return
			}
			nDel++
			g := boolCallGate(p, gn, "!key.IsValidAt(now)", ana.Q("(*net/ntske.Key).IsValidAt"), func(c *ssa.CallCommon) bool { return isTimeNow(c.Args[1]) }, false)
			if okp, w := ana.MustPass(gn, nil, g, func(i ssa.Instruction) bool { return i == in }, nil, nil); okp && len(g.Accept) > 0 {
				r.Ok("C12.valid", fname, "retire-only-expired", posOf(p, in), "keys are deleted only on the edge !key.IsValidAt(now)")
			} else {
				r.Violate("C12.valid", fname, "retire-only-expired", posOf(p, in), "a key can be retired while still valid (cookies sealed with it stop working early)", w...)
			}
		})
		if nDel == 0 {
			r.Assumed("C12.valid", fname, "no-retirement", p.Pos(gn.Pos()), "no key is ever deleted (memory only; validity is enforced by Get)")
		}
		// key.ID <- currentID, Value <- 32 random bytes
	}
}
