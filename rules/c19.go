package rules

import (
	"fmt"
	"go/constant"
	"go/token"
	"strings"

	"golang.org/x/tools/go/ssa"

	"verif/internal/ana"
)

func init() { All["C19"] = checkC19 }

const (
	fnStep   = "(example.com/scion-time/base/timebase.SystemClock).Step"
	fnAdjust = "(example.com/scion-time/base/timebase.SystemClock).Adjust"
)

func constFloatOf(v ssa.Value) (float64, bool) {
	c, ok := ana.StripConv(v).(*ssa.Const)
	if !ok || c.Value == nil {
		return 0, false
	}
	switch c.Value.Kind() {
	case constant.Int, constant.Float:
		f, _ := constant.Float64Val(constant.ToFloat(c.Value))
		return f, true
	}
	return 0, false
}

// invParity counts timemath.Inv applications between v and the parameter named param.
func invParity(v ssa.Value, param string) (int, bool) {
	n := 0
	for i := 0; i < 8; i++ {
		if pr, ok := v.(*ssa.Parameter); ok {
			return n, pr.Name() == param
		}
		c, _ := ana.CallOf(v)
		if c == nil || ana.CalleeName(c.Common()) != ana.Q("base/timemath.Inv") {
			return 0, false
		}
		n++
		v = c.Common().Args[0]
	}
	return 0, false
}

func checkC19(p *ana.Prog, r *ana.Result) {
	r.Explain("C19 (structural necessary conditions) for adjustments.(*Pll).Do: who may step - the only SystemClock.Step call of package adjustments is in Pll.Do, reachable only on the arm mode == 1 through mdt > 2 s, weight > 3 and |offset| > 1 ms, its argument is the caller's offset through an even number of sign inversions, and that arm then records t0 and advances the mode; restart - every path from entry to the mode dispatch passes either epoch == clk.Epoch() or the reset mode <- 0 (with epoch <- clk.Epoch()), and mode 0 only records t0 and advances; slew bound - the first argument of the only Adjust call is Duration(p) where p is 0 on all arms except tracking, where it passes the two one-sided clamps against +-d*500e-6 with d = math.Ceil(dt); positive duration - Adjust is reachable only through d > 0 for the very d converted into its duration argument. The slew bound is decided on values: p as it reaches Adjust is followed through merges, min/max and the comparisons with +-d*500e-6 that dominate each incoming edge (two ifs, if/else-if, min/max, a limit kept in a variable are all the same to the rule). Weight: the weight parameter is used only in ordered comparisons (and logging), or a NaN test exists where it is used as a value - a NaN weight selects an arm and cannot reach the gains, the integrator or the frequency.")
	r.Undecided("finiteness of the integrator l.i and of the frequency argument for finite inputs (only the NaN-weight case is decided), the gain schedule, monotonic-clock assumption (panic arms noted), the SystemClock implementation")
	fn := mustFunc(p, r, "core/sync/adjustments", "(*Pll).Do")
	if fn == nil {
		return
	}
	fname := ana.FuncName(fn)
	c19Weight(p, r, fn)
	// who may step / adjust in the package
	nStep, nAdj := 0, 0
	for _, f := range p.AllFuncs {
		if f.Pkg != fn.Pkg {
			continue
		}
		for _, c := range ana.CallsIn(f, fnStep) {
			nStep++
			if f != fn {
				r.Violate("C19.step", ana.FuncName(f), "step-outside-pll", posOf(p, c), "the clock is stepped outside (*Pll).Do")
			}
		}
		for _, c := range ana.CallsIn(f, fnAdjust) {
			nAdj++
			if f != fn {
				r.Violate("C19.adjust", ana.FuncName(f), "adjust-outside-pll", posOf(p, c), "Adjust is called outside (*Pll).Do")
			}
		}
	}
	steps := ana.CallsIn(fn, fnStep)
	adjs := ana.CallsIn(fn, fnAdjust)
	if len(steps) != 1 || len(adjs) != 1 || nStep != 1 || nAdj != 1 {
		r.Violate("C19.step", fname, "call-sites", p.Pos(fn.Pos()), fmt.Sprintf("expected exactly one Step and one Adjust call in Pll.Do (and the package), found %d/%d (package %d/%d)", len(steps), len(adjs), nStep, nAdj))
		return
	}
	step := steps[0].(*ssa.Call)
	adj := adjs[0].(*ssa.Call)
	isStep := func(in ssa.Instruction) bool { return in == ssa.Instruction(step) }
	// mode value dispatched on: load of l.mode compared with constants
	modeEq := func(k int64) *ana.Gate {
		return ana.FindGate(p, fn, fmt.Sprintf("mode==%d", k), func(c ana.Cmp, isCmp bool, _ ssa.Value) (bool, bool) {
			if !isCmp || (c.Op != token.EQL && c.Op != token.NEQ) || ana.AccessPath(c.X) != "l.mode" {
				return false, false
			}
			kk, ok := ana.ConstInt(c.Y)
			if !ok || kk != k {
				return false, false
			}
			return true, c.Op == token.EQL
		})
	}
	durGT := func(name string, isX func(ssa.Value) bool, ns int64) *ana.Gate {
		return ana.FindGate(p, fn, name, func(c ana.Cmp, isCmp bool, _ ssa.Value) (bool, bool) {
			if !isCmp || !isX(c.X) {
				return false, false
			}
			k, ok := ana.ConstInt(c.Y)
			if !ok || k != ns {
				return false, false
			}
			switch c.Op {
			case token.GTR:
				return true, true
			case token.LEQ:
				return true, false
			}
			return false, false
		})
	}
	isMdt := func(v ssa.Value) bool {
		c, _ := ana.CallOf(v)
		if c == nil || ana.CalleeName(c.Common()) != "(time.Time).Sub" {
			return false
		}
		n, _ := ana.CallOf(c.Common().Args[0])
		return n != nil && strings.HasSuffix(ana.CalleeName(n.Common()), "SystemClock).Now") && ana.AccessPath(c.Common().Args[1]) == "l.t0"
	}
	isAbsOffset := func(v ssa.Value) bool {
		c, _ := ana.CallOf(v)
		if c == nil || ana.CalleeName(c.Common()) != "(time.Duration).Abs" {
			return false
		}
		_, ok := invParity(c.Common().Args[0], "offset")
		return ok
	}
	weightGT := ana.FindGate(p, fn, "weight>3", func(c ana.Cmp, isCmp bool, _ ssa.Value) (bool, bool) {
		if !isCmp {
			return false, false
		}
		if pr, ok := c.X.(*ssa.Parameter); !ok || pr.Name() != "weight" {
			return false, false
		}
		f, ok := constFloatOf(c.Y)
		if !ok || f != 3 {
			return false, false
		}
		switch c.Op {
		case token.GTR:
			return true, true
		case token.LEQ:
			return true, false
		}
		return false, false
	})
	checkGates(p, r, "C19.step", fn, nil, isStep, nil, "clk.Step", []gateSpec{
		{name: "mode==1(awaiting step)", gate: modeEq(1)},
		{name: "mdt>2s", gate: durGT("mdt>2s", isMdt, 2e9)},
		{name: "weight>3", gate: weightGT},
		{name: "|offset|>1ms", gate: durGT("|offset|>1ms", isAbsOffset, 1e6)},
	})
	if n, ok := invParity(step.Call.Args[0], "offset"); ok && n%2 == 0 {
		r.Ok("C19.step", fname, "step-by-measured-offset", posOf(p, step), fmt.Sprintf("Step argument is the caller's offset through %d sign inversions (net: unchanged)", n))
	} else {
		r.Violate("C19.step", fname, "step-by-measured-offset", posOf(p, step), "the clock is not stepped by exactly the measured offset (odd number of sign inversions or another value)")
	}
	// after the step: t0 <- now and mode++ on the same arm (every path from step to function exit passes both)
	isT0 := func(in ssa.Instruction) bool {
		st, ok := in.(*ssa.Store)
		return ok && ana.AccessPath(st.Addr) == "l.t0"
	}
	isModeInc := func(in ssa.Instruction) bool {
		st, ok := in.(*ssa.Store)
		if !ok || ana.AccessPath(st.Addr) != "l.mode" {
			return false
		}
		// a later mode written as a constant (the step is taken in mode 1 only)
		if k, isK := ana.ConstInt(st.Val); isK {
			return k > 1
		}
		bo, ok := st.Val.(*ssa.BinOp)
		if !ok || bo.Op != token.ADD || ana.AccessPath(bo.X) != "l.mode" {
			return false
		}
		k, _ := ana.ConstInt(bo.Y)
		return k == 1
	}
	isRet := func(in ssa.Instruction) bool { _, ok := in.(*ssa.Return); return ok }
	for _, st := range []struct {
		name string
		pred func(ssa.Instruction) bool
	}{{"t0<-now", isT0}, {"mode++", isModeInc}} {
		s := &ana.Search{Fn: fn, Stop: st.pred, Target: isRet}
		if found, w := s.Run(step); found {
			r.Violate("C19.step", fname, "after-step:"+st.name, posOf(p, step), "after stepping the clock the start-up state machine does not always do "+st.name+" (it could step again on the next update)", w...)
		} else {
			r.Ok("C19.step", fname, "after-step:"+st.name, posOf(p, step), "every path from the step to the end of the update passes "+st.name)
		}
	}
	// (b) restart on epoch change
	epochEq := ana.FindGate(p, fn, "epoch==clk.Epoch()", func(c ana.Cmp, isCmp bool, _ ssa.Value) (bool, bool) {
		if !isCmp || (c.Op != token.EQL && c.Op != token.NEQ) {
			return false, false
		}
		for _, pr := range [][2]ssa.Value{{c.X, c.Y}, {c.Y, c.X}} {
			e, _ := ana.CallOf(pr[1])
			if ana.AccessPath(pr[0]) == "l.epoch" && e != nil && strings.HasSuffix(ana.CalleeName(e.Common()), "SystemClock).Epoch") {
				return true, c.Op == token.EQL
			}
		}
		return false, false
	})
	isModeReset := func(in ssa.Instruction) bool {
		st, ok := in.(*ssa.Store)
		if !ok || ana.AccessPath(st.Addr) != "l.mode" {
			return false
		}
		k, isK := ana.ConstInt(st.Val)
		return isK && k == 0
	}
	// dispatch = first comparison on l.mode
	var dispatch ssa.Instruction
	for _, b := range fn.DomPreorder() {
		for _, in := range b.Instrs {
			if bo, ok := in.(*ssa.BinOp); ok && dispatch == nil && ana.AccessPath(bo.X) == "l.mode" {
				if _, isK := ana.ConstInt(bo.Y); isK && (bo.Op == token.EQL || bo.Op == token.NEQ) {
					dispatch = in
				}
			}
		}
	}
	if dispatch == nil || len(epochEq.Accept) == 0 {
		r.Violate("C19.restart", fname, "epoch-test", p.Pos(fn.Pos()), "the update does not compare its epoch with clk.Epoch() before dispatching on the mode")
	} else {
		s := &ana.Search{Fn: fn, Cut: func(e ana.Edge) bool { return epochEq.Accept[e] }, Stop: isModeReset, Target: func(in ssa.Instruction) bool { return in == dispatch }}
		if found, w := s.Run(nil); found {
			r.Violate("C19.restart", fname, "epoch-change-restarts", posOf(p, dispatch), "after a clock step observed through the epoch the start-up sequence is not always restarted (mode is not reset to 0 on some path)", w...)
		} else {
			r.Ok("C19.restart", fname, "epoch-change-restarts", posOf(p, dispatch), "the mode dispatch is reached only with epoch == clk.Epoch() or after mode <- 0")
		}
		// the reset also records the new epoch
		okEp := false
		ana.Instrs(fn, func(in ssa.Instruction) {
			if st, ok := in.(*ssa.Store); ok && ana.AccessPath(st.Addr) == "l.epoch" {
				if e, _ := ana.CallOf(st.Val); e != nil && strings.HasSuffix(ana.CalleeName(e.Common()), "SystemClock).Epoch") {
					okEp = true
				}
			}
		})
		if okEp {
			r.Ok("C19.restart", fname, "epoch-recorded", p.Pos(fn.Pos()), "l.epoch <- clk.Epoch() on the restart arm")
		} else {
			r.Violate("C19.restart", fname, "epoch-recorded", p.Pos(fn.Pos()), "the observed epoch is not recorded (the PLL would restart on every update)")
		}
	}
	// the slew bound is relative to the time since the previous update: every update that
	// returns normally records its own time (l.t <- the clock reading taken at its start)
	{
		var nowCall ssa.Value
		nNow := 0
		ana.Instrs(fn, func(in ssa.Instruction) {
			if c, ok := in.(*ssa.Call); ok && strings.HasSuffix(ana.CalleeName(&c.Call), "SystemClock).Now") {
				nowCall = c
				nNow++
			}
		})
		if nNow != 1 {
			nowCall = nil
		}
		var stores []ssa.Instruction
		ana.Instrs(fn, func(in ssa.Instruction) {
			if st, ok := in.(*ssa.Store); ok {
				if fa, ok := st.Addr.(*ssa.FieldAddr); ok && fa.X == ssa.Value(fn.Params[0]) && fieldNameOf(fa.X.Type(), fa.Field) == "t" && st.Val == nowCall {
					stores = append(stores, st)
				}
			}
		})
		isStore := func(in ssa.Instruction) bool {
			for _, s := range stores {
				if s == in {
					return true
				}
			}
			return false
		}
		isRet := func(in ssa.Instruction) bool { _, ok := in.(*ssa.Return); return ok }
		if nowCall == nil || len(stores) == 0 {
			r.Violate("C19.adjust", fname, "update-time-recorded", p.Pos(fn.Pos()), "Do does not record the time of this update (l.t <- clk.Now() read at entry): the slew bound of the next update is computed over a wrong interval")
		} else if ana.Reachable(fn, nil, isRet, isStore, nil) {
			s := &ana.Search{Fn: fn, Target: isRet, Stop: isStore}
			_, w := s.Run(nil)
			r.Violate("C19.adjust", fname, "update-time-recorded", p.Pos(fn.Pos()), "an update can return without recording its time in l.t: the next tracking update measures its interval (and its 500 ppm budget) from an older update", w...)
		} else {
			r.Ok("C19.adjust", fname, "update-time-recorded", posOf(p, stores[0]), "every update that returns records l.t <- the clock reading taken at its start")
		}
	}
	// mode 0 arm: no Step reachable (covered by mode==1 gate)
	// (c) slew bound and (d) positive duration
	c19Adjust(p, r, fn, adj)
}

func c19Adjust(p *ana.Prog, r *ana.Result, fn *ssa.Function, adj *ssa.Call) {
	fname := ana.FuncName(fn)
	durArg := func(v ssa.Value) ssa.Value {
		c, _ := ana.CallOf(v)
		if c == nil || ana.CalleeName(c.Common()) != ana.Q("base/timemath.Duration") {
			return nil
		}
		return c.Common().Args[0]
	}
	pv := durArg(adj.Call.Args[1-0])
	dv := durArg(adj.Call.Args[2])
	if adj.Call.IsInvoke() {
		pv = durArg(adj.Call.Args[0])
		dv = durArg(adj.Call.Args[1])
	}
	if pv == nil || dv == nil {
		r.Violate("C19.adjust", fname, "adjust-args", posOf(p, adj), "UNDECIDED: Adjust is not called with timemath.Duration(p), timemath.Duration(d)")
		return
	}
	// positive duration: d > 0 gate
	pos := ana.FindGate(p, fn, "d>0", func(c ana.Cmp, isCmp bool, _ ssa.Value) (bool, bool) {
		if !isCmp || c.X != dv {
			return false, false
		}
		f, ok := constFloatOf(c.Y)
		if !ok || f != 0 {
			return false, false
		}
		switch c.Op {
		case token.GTR:
			return true, true
		case token.LEQ:
			return true, false
		}
		return false, false
	})
	isAdj := func(in ssa.Instruction) bool { return in == ssa.Instruction(adj) }
	if len(pos.Accept) == 0 {
		r.Violate("C19.adjust", fname, "positive-duration", posOf(p, adj), "Adjust is not guarded by d > 0 for the duration it is given (a zero or negative duration can be requested)")
	} else if ok, w := ana.MustPass(fn, nil, pos, isAdj, nil, nil); ok {
		r.Ok("C19.adjust", fname, "positive-duration", posOf(p, adj), "Adjust is reachable only through d > 0 for the d converted into its duration argument")
	} else {
		r.Violate("C19.adjust", fname, "positive-duration", posOf(p, adj), "Adjust can be reached without d > 0", w...)
	}
	// slew bound: leaves of p
	pph, ok := pv.(*ssa.Phi)
	if !ok {
		r.Violate("C19.adjust", fname, "slew-form", posOf(p, adj), "UNDECIDED: p is not a merge of the mode arms")
		return
	}
	dph, _ := dv.(*ssa.Phi)
	nZero, nClamped, bad := 0, 0, 0
	for i, e := range pph.Edges {
		if f, isK := constFloatOf(e); isK && f == 0 {
			nZero++
			continue
		}
		// corresponding d on this edge
		var de ssa.Value
		if dph != nil && dph.Block() == pph.Block() {
			de = dph.Edges[i]
		}
		// p and d may be merged pairwise more than once (a helper's result struct handed on)
		var pairOK func(e, de ssa.Value, at, to *ssa.BasicBlock, depth int) bool
		pairOK = func(e, de ssa.Value, at, to *ssa.BasicBlock, depth int) bool {
			if f, isK := constFloatOf(e); isK && f == 0 {
				return true
			}
			if de == nil || depth > 4 {
				return false
			}
			if clampedBoth(e, de) || slewBounded(e, de, at, to) {
				return true
			}
			ep, ok1 := e.(*ssa.Phi)
			dp, ok2 := de.(*ssa.Phi)
			if ok1 && ok2 && ep.Block() == dp.Block() {
				for j := range ep.Edges {
					if !pairOK(ep.Edges[j], dp.Edges[j], ep.Block().Preds[j], ep.Block(), depth+1) {
						return false
					}
				}
				return true
			}
			return false
		}
		if !pairOK(e, de, pph.Block().Preds[i], pph.Block(), 0) {
			bad++
			r.Violate("C19.adjust", fname, fmt.Sprintf("slew-bound:arm%d", i), posOf(p, adj), "on the tracking arm the slew p ("+ana.ValueString(e)+") is not clamped on both sides to +-d*500e-6 (d = math.Ceil(dt)) before it is handed to Adjust: more than 500 ppm of the elapsed time can be slewed per update")
			continue
		}
		nClamped++
	}
	if bad == 0 && nClamped >= 1 {
		r.Ok("C19.adjust", fname, "slew-bound", posOf(p, adj), fmt.Sprintf("p is 0 on %d arms and, on the tracking arm(s) (%d), has passed `if p > d*500e-6 {p = d*500e-6}` and `if p < d*-500e-6 {p = d*-500e-6}` with d = math.Ceil(dt)", nZero, nClamped))
	} else if bad == 0 {
		r.Violate("C19.adjust", fname, "slew-bound", posOf(p, adj), "no tracking arm with a clamped slew found")
	}
}

// isCeilTimes: v == d * k where d is math.Ceil(...) identical to dd.
func isCeilTimes(v ssa.Value, dd ssa.Value, k float64) bool {
	mul, ok := v.(*ssa.BinOp)
	if !ok || mul.Op != token.MUL {
		return false
	}
	for _, pr := range [][2]ssa.Value{{mul.X, mul.Y}, {mul.Y, mul.X}} {
		f, isK := constFloatOf(pr[1])
		if isK && f == k && pr[0] == dd {
			c, _ := ana.CallOf(dd)
			return c != nil && ana.CalleeName(c.Common()) == "math.Ceil"
		}
		// (-d) * c is d * (-c)
		if u, isU := pr[0].(*ssa.UnOp); isU && u.Op == token.SUB && isK && f == -k && u.X == dd {
			c, _ := ana.CallOf(dd)
			return c != nil && ana.CalleeName(c.Common()) == "math.Ceil"
		}
	}
	return false
}

// clampedBoth: the value v (one incoming edge of the final p phi) has passed
// both one-sided clamps against +-d*5e-4. Because the two clamps are
// sequential ifs, v is either the lower-clamp constant arm (d*-5e-4) or the
// phi after the upper clamp guarded by the failed lower test.
func clampedBoth(v ssa.Value, d ssa.Value) bool {
	return clampedBothN(v, d, 0)
}

func clampedBothN(v ssa.Value, d ssa.Value, depth int) bool {
	// case A: v = d * -5e-4 (lower clamp taken)
	if isCeilTimes(v, d, -0.0005) {
		return true
	}
	// case C: a merge all of whose inputs are clamped (the two outcomes of the lower test joined
	// before the value is used)
	if ph, ok := v.(*ssa.Phi); ok && depth < 3 && len(ph.Edges) >= 1 {
		all := true
		for _, e := range ph.Edges {
			if e == v || !clampedBothN(e, d, depth+1) {
				all = false
				break
			}
		}
		if all {
			return true
		}
	}
	// case B: v = phi[p0 (p0 <= d*5e-4), d*5e-4], and the edge comes from the block where v < d*-5e-4 was false
	ph, ok := v.(*ssa.Phi)
	if !ok || len(ph.Edges) != 2 {
		return false
	}
	upper := false
	for i := 0; i < 2; i++ {
		raw, cl := ph.Edges[i], ph.Edges[1-i]
		if !isCeilTimes(cl, d, 0.0005) {
			continue
		}
		rb := ph.Block().Preds[i]
		iff, isIf := rb.Instrs[len(rb.Instrs)-1].(*ssa.If)
		if !isIf {
			continue
		}
		c, pos, isCmp := ana.AsCmpDir(iff.Cond, token.GTR)
		if isCmp && pos && c.Op == token.GTR && c.X == raw && isCeilTimes(c.Y, d, 0.0005) && rb.Succs[0] == ph.Block().Preds[1-i] {
			upper = true
		}
	}
	if !upper {
		return false
	}
	// lower test in ph's block: if v < d*-5e-4
	b := ph.Block()
	iff, isIf := b.Instrs[len(b.Instrs)-1].(*ssa.If)
	if !isIf {
		return false
	}
	c, pos, isCmp := ana.AsCmpDir(iff.Cond, token.LSS)
	return isCmp && pos && c.Op == token.LSS && c.X == ssa.Value(ph) && isCeilTimes(c.Y, d, -0.0005)
}

// slewBounded: the value v, as it arrives at the end of block at, lies within [-L, +L] with
// L = d*500e-6 and d = math.Ceil(dt): decided by following v through merges, min/max and the
// comparisons with +-L that dominate each incoming edge - however the clamp is spelled (two ifs,
// if/else-if, min/max, a limit held in a variable, negated limit).
func slewBounded(v ssa.Value, d ssa.Value, at, to *ssa.BasicBlock) bool {
	isL := func(x ssa.Value) bool { return isCeilTimes(x, d, 0.0005) }
	isNegL := func(x ssa.Value) bool {
		if isCeilTimes(x, d, -0.0005) {
			return true
		}
		if u, ok := x.(*ssa.UnOp); ok && u.Op == token.SUB && isL(u.X) {
			return true
		}
		return false
	}
	// knownOnWayTo: a comparison of x with the limit that holds whenever the end of block blk is reached
	knownOnWayTo := func(x ssa.Value, blk, to *ssa.BasicBlock, upper bool) bool {
		fn := blk.Parent()
		for _, g := range fn.Blocks {
			if len(g.Instrs) == 0 {
				continue
			}
			iff, ok := g.Instrs[len(g.Instrs)-1].(*ssa.If)
			if !ok {
				continue
			}
			for si, s := range g.Succs {
				onEdge := g == blk && s == to // the very edge along which the value arrives
				if !onEdge && !(len(s.Preds) == 1 && (s == blk || s.Dominates(blk))) {
					continue
				}
				for _, a := range ana.Implied(iff.Cond, si == 0) {
					cmp, pos, ok := ana.AsCmp(a.V)
					if !ok {
						continue
					}
					truth := a.Holds == pos
					for _, c := range []ana.Cmp{cmp, cmp.Mirror()} {
						if c.X != x {
							continue
						}
						op := c.Op
						if !truth {
							op = ana.NegOp(op)
						}
						if upper && isL(c.Y) && (op == token.LEQ || op == token.LSS) {
							return true
						}
						if !upper && isNegL(c.Y) && (op == token.GEQ || op == token.GTR) {
							return true
						}
					}
				}
			}
		}
		return false
	}
	var bounded func(x ssa.Value, blk, to *ssa.BasicBlock, upper bool, depth int) bool
	bounded = func(x ssa.Value, blk, to *ssa.BasicBlock, upper bool, depth int) bool {
		if depth > 6 {
			return false
		}
		if isL(x) || isNegL(x) {
			return true // -L <= +L because d = Ceil(dt) of a non-negative dt
		}
		if f, ok := constFloatOf(x); ok && f == 0 {
			return true
		}
		if c, _ := ana.CallOf(x); c != nil {
			switch ana.CalleeName(c.Common()) {
			case "builtin.min":
				if upper {
					for _, a := range c.Common().Args {
						if bounded(a, blk, to, upper, depth+1) {
							return true
						}
					}
					return false
				}
				for _, a := range c.Common().Args {
					if !bounded(a, blk, to, upper, depth+1) {
						return false
					}
				}
				return true
			case "builtin.max":
				if !upper {
					for _, a := range c.Common().Args {
						if bounded(a, blk, to, upper, depth+1) {
							return true
						}
					}
					return false
				}
				for _, a := range c.Common().Args {
					if !bounded(a, blk, to, upper, depth+1) {
						return false
					}
				}
				return true
			}
		}
		if knownOnWayTo(x, blk, to, upper) {
			return true
		}
		if ph, ok := x.(*ssa.Phi); ok {
			for i, e := range ph.Edges {
				if e == x || !bounded(e, ph.Block().Preds[i], ph.Block(), upper, depth+1) {
					return false
				}
			}
			return true
		}
		return false
	}
	return bounded(v, at, to, true, 0) && bounded(v, at, to, false, 0)
}
