package rules

import (
	"fmt"
	"go/token"
	"sort"
	"strings"

	"golang.org/x/tools/go/ssa"

	"verif/internal/ana"
)

// Symbolic byte accounting of the four NTS extension field encoders.
//
// A length expression is flattened into a sum of named, non-negative atoms with integer
// coefficients and a constant. Atoms are
//
//	len(<access path>)          the length of a slice the encoder is given
//	round4(<sum>)               (s+3)&^3
//	padrem(<sum>)               (-s)%4
//
// copy(dst, src) counts len(src) (the space test in front guarantees the room; that test is the
// second thing compared below), len(make([]T, k)) is k, x.pack(buf, pos) of a callee whose only
// return is linear in its parameters is substituted. k + padrem(k) is rewritten to round4(k) so
// that the two padding idioms of the code compare equal.
type linSum struct {
	terms map[string]int64
	c     int64
}

func newLin() *linSum { return &linSum{terms: map[string]int64{}} }

func (l *linSum) add(k string, n int64) {
	l.terms[k] += n
	if l.terms[k] == 0 {
		delete(l.terms, k)
	}
}

func (l *linSum) addSum(o *linSum, sign int64) {
	for k, v := range o.terms {
		l.add(k, sign*v)
	}
	l.c += sign * o.c
}

func (l *linSum) String() string {
	var ks []string
	for k := range l.terms {
		ks = append(ks, k)
	}
	sort.Strings(ks)
	var sb strings.Builder
	for _, k := range ks {
		fmt.Fprintf(&sb, "%+d*%s ", l.terms[k], k)
	}
	fmt.Fprintf(&sb, "%+d", l.c)
	return sb.String()
}

// canon rewrites k + padrem(k) to round4(k).
func (l *linSum) canon() {
	for k, n := range l.terms {
		if !strings.HasPrefix(k, "padrem(") || n <= 0 {
			continue
		}
		inner := strings.TrimSuffix(strings.TrimPrefix(k, "padrem("), ")")
		// inner is the String() of a sum; only the single-atom form "+1*atom +0" is folded
		if !strings.HasPrefix(inner, "+1*") || !strings.HasSuffix(inner, " +0") || strings.Count(inner, "*") != 1 {
			continue
		}
		atom := strings.TrimSuffix(strings.TrimPrefix(inner, "+1*"), " +0")
		if l.terms[atom] >= n {
			l.add(atom, -n)
			l.add(k, -n)
			l.add("round4("+inner+")", n)
		}
	}
}

// aligned4: the sum is a multiple of four for every value of its atoms.
func (l *linSum) aligned4() bool {
	if l.c%4 != 0 {
		return false
	}
	for k, n := range l.terms {
		if n%4 == 0 || strings.HasPrefix(k, "round4(") {
			continue
		}
		return false
	}
	return true
}

type linEnv struct {
	bind  map[ssa.Value]*linSum // parameter bindings of a substituted callee
	depth int
	calls int // nesting of substituted callees
	why   string
}

func (e *linEnv) fail(v ssa.Value, what string) bool {
	if e.why == "" {
		e.why = what + " " + v.Name() + " = " + v.String()
	}
	return false
}

func (e *linEnv) sum(v ssa.Value, sign int64, out *linSum) bool {
	if e.depth > 40 {
		return e.fail(v, "too deep at")
	}
	e.depth++
	defer func() { e.depth-- }()
	v = ana.StripConv(v)
	if b, ok := e.bind[v]; ok {
		out.addSum(b, sign)
		return true
	}
	if k, ok := ana.ConstInt(v); ok {
		out.c += sign * k
		return true
	}
	switch t := v.(type) {
	case *ssa.BinOp:
		switch t.Op {
		case token.ADD:
			return e.sum(t.X, sign, out) && e.sum(t.Y, sign, out)
		case token.SUB:
			return e.sum(t.X, sign, out) && e.sum(t.Y, -sign, out)
		case token.AND, token.AND_NOT:
			k, isK := ana.ConstInt(t.Y)
			if isK && (t.Op == token.AND && k == -4 || t.Op == token.AND_NOT && k == 3) {
				in := newLin()
				if !e.sum(t.X, 1, in) {
					return false
				}
				in.c -= 3
				in.canon()
				if len(in.terms) == 0 {
					out.c += sign * ((in.c + 3) &^ 3)
					return true
				}
				out.add("round4("+in.String()+")", sign)
				return true
			}
		case token.REM:
			if k, isK := ana.ConstInt(t.Y); isK && k == 4 {
				if neg, ok := ana.StripConv(t.X).(*ssa.UnOp); ok && neg.Op == token.SUB {
					in := newLin()
					if !e.sum(neg.X, 1, in) {
						return false
					}
					in.canon()
					if len(in.terms) == 0 {
						out.c += sign * (((-in.c)%4 + 4) % 4)
						return true
					}
					out.add("padrem("+in.String()+")", sign)
					return true
				}
			}
		}
		return e.fail(v, "operator not modelled:")
	case *ssa.Call:
		if b, ok := t.Call.Value.(*ssa.Builtin); ok {
			switch b.Name() {
			case "len":
				return e.lenOf(t.Call.Args[0], sign, out)
			case "copy":
				return e.lenOf(t.Call.Args[1], sign, out)
			}
			return e.fail(v, "builtin not modelled:")
		}
		if cal := t.Call.StaticCallee(); cal != nil && cal.Blocks != nil && e.calls < 4 {
			var rets []*ssa.Return
			for _, b := range cal.Blocks {
				if r, ok := b.Instrs[len(b.Instrs)-1].(*ssa.Return); ok {
					rets = append(rets, r)
				}
			}
			if len(rets) == 1 && len(rets[0].Results) == 1 {
				sub := &linEnv{bind: map[ssa.Value]*linSum{}, depth: e.depth, calls: e.calls + 1}
				for i, prm := range cal.Params {
					a := newLin()
					ae := &linEnv{bind: e.bind, depth: e.depth, calls: e.calls}
					if ae.sum(t.Call.Args[i], 1, a) {
						sub.bind[prm] = a
					}
				}
				if sub.sum(rets[0].Results[0], sign, out) {
					return true
				}
				return e.fail(v, "callee result not linear ("+sub.why+"):")
			}
		}
		return e.fail(v, "call not modelled:")
	case *ssa.Phi:
		// cursor of a counting loop "for ; pos != end; pos++": behind the loop pos == end
		if blk := t.Block(); len(blk.Instrs) > 0 {
			if iff, ok := blk.Instrs[len(blk.Instrs)-1].(*ssa.If); ok {
				if cmp, ok := iff.Cond.(*ssa.BinOp); ok && cmp.Op == token.NEQ && (cmp.X == t || cmp.Y == t) {
					end := cmp.Y
					if cmp.Y == t {
						end = cmp.X
					}
					steps := false
					for _, ed := range t.Edges {
						if inc, ok := ed.(*ssa.BinOp); ok && inc.Op == token.ADD && inc.X == t {
							if k, isK := ana.ConstInt(inc.Y); isK && k == 1 {
								steps = true
							}
						}
					}
					if in, ok := end.(ssa.Instruction); steps && (!ok || in.Block() != blk && in.Block().Dominates(blk)) {
						return e.sum(end, sign, out)
					}
				}
			}
		}
		// all inputs equal
		var first *linSum
		for _, ed := range t.Edges {
			s := newLin()
			if !e.sum(ed, 1, s) {
				return false
			}
			s.canon()
			if first == nil {
				first = s
			} else if first.String() != s.String() {
				return e.fail(v, "merge of different lengths:")
			}
		}
		if first != nil {
			out.addSum(first, sign)
			return true
		}
	case *ssa.Parameter:
		out.add(t.Name(), sign)
		return true
	case *ssa.UnOp:
		if t.Op == token.MUL {
			if p := ana.AccessPath(t); p != "" {
				out.add(p, sign)
				return true
			}
		}
	}
	return e.fail(v, "value not modelled:")
}

func (e *linEnv) lenOf(s ssa.Value, sign int64, out *linSum) bool {
	s = ana.Strip(s)
	switch t := s.(type) {
	case *ssa.MakeSlice:
		return e.sum(t.Len, sign, out)
	case *ssa.Slice:
		// x[lo:hi] -> hi - lo (hi defaults to len(x))
		if t.High != nil {
			if !e.sum(t.High, sign, out) {
				return false
			}
		} else if !e.lenOf(t.X, sign, out) {
			return false
		}
		if t.Low != nil {
			return e.sum(t.Low, -sign, out)
		}
		return true
	}
	if p := ana.AccessPath(s); p != "" {
		out.add("len("+p+")", sign)
		return true
	}
	return e.fail(s, "length of a value without a name:")
}

// c14ExtLen checks, for the four extension field encoders of net/nts:
//
//	declared  - the Length written into the field's header equals the bytes the encoder occupies
//	            (returned cursor minus the cursor it was given) and is a multiple of four for every
//	            value length: the decoder advances by the declared Length, so a shorter or unaligned
//	            one makes every following field decode as something else;
//	space     - the free-space test that leads to errShortBuffer does not demand more than the bytes
//	            occupied (an over-demand rejects packets that fit - the request at pool level 2 is 1020
//	            of 1024 bytes).
//
// mode selects which of the two is reported (C14: declared, C11: space).
func c14ExtLen(p *ana.Prog, r *ana.Result, rule string, declared, space bool) {
	n := 0
	for _, k := range []string{"UniqueIdentifier", "Cookie", "CookiePlaceholder", "Authenticator"} {
		pk := mustFunc(p, r, "net/nts", "("+k+").pack")
		if pk == nil {
			continue
		}
		fname := ana.FuncName(pk)
		var posParam *ssa.Parameter
		for _, prm := range pk.Params {
			if prm.Name() == "pos" {
				posParam = prm
			}
		}
		// occupied bytes: the success return's cursor minus the parameter
		cur, succ := successCursors(pk)
		if posParam == nil || len(cur) != 1 {
			r.Violate(rule, fname, "occupied-bytes", p.Pos(pk.Pos()), fmt.Sprintf("UNDECIDED: expected a cursor parameter and one success return, found %d", len(cur)))
			continue
		}
		occ := newLin()
		env := &linEnv{}
		if !env.sum(cur[0], 1, occ) {
			r.Violate(rule, fname, "occupied-bytes", posOf(p, succ), "UNDECIDED: returned cursor is not a sum of lengths: "+env.why)
			continue
		}
		occ.add(posParam.Name(), -1)
		occ.canon()
		if declared {
			// stores to the header's Length field
			var stores []*ssa.Store
			ana.Instrs(pk, func(in ssa.Instruction) {
				if st, ok := in.(*ssa.Store); ok {
					if ch, _ := fieldChain(st.Addr); ch == "Length" || strings.HasSuffix(ch, ".Length") {
						stores = append(stores, st)
					}
				}
			})
			if len(stores) == 0 {
				r.Violate(rule, fname, "declared-length=occupied", p.Pos(pk.Pos()), "UNDECIDED: no store to the header's Length field found")
			}
			for i, st := range stores {
				n++
				construct := "declared-length=occupied"
				if i > 0 {
					construct += fmt.Sprintf(" #%d", i+1)
				}
				decl := newLin()
				env := &linEnv{}
				if !env.sum(st.Val, 1, decl) {
					r.Violate(rule, fname, construct, posOf(p, st), "UNDECIDED: declared Length is not a sum of lengths: "+env.why)
					continue
				}
				decl.canon()
				switch {
				case decl.String() != occ.String():
					r.Violate(rule, fname, construct, posOf(p, st), fmt.Sprintf("the header declares Length = %s but the field occupies %s bytes: the decoder advances by the declared Length and decodes what follows as a different kind", decl, occ))
				case !decl.aligned4():
					r.Violate(rule, fname, construct, posOf(p, st), fmt.Sprintf("the declared Length %s is not a multiple of four for every value length", decl))
				default:
					r.Ok(rule, fname, construct, posOf(p, st), fmt.Sprintf("Length = occupied bytes = %s, a multiple of four", decl))
				}
			}
		}
		if space {
			// tests leading to a return of errShortBuffer
			nTests := 0
			for _, b := range pk.Blocks {
				iff := c09LastIfOrNil(b)
				if iff == nil {
					continue
				}
				cmp, ok := iff.Cond.(*ssa.BinOp)
				if !ok {
					continue
				}
				errSucc := -1
				for si, s := range b.Succs {
					if len(s.Preds) != 1 {
						continue
					}
					for _, in := range s.Instrs {
						if ld, ok := in.(*ssa.UnOp); ok && ld.Op == token.MUL {
							if g, ok := ld.X.(*ssa.Global); ok && g.Name() == "errShortBuffer" {
								errSucc = si
							}
						}
					}
				}
				if errSucc < 0 {
					continue
				}
				// normalise to  lhs - rhs  REL 0  on the error edge
				d := newLin()
				env := &linEnv{}
				if !env.sum(cmp.X, 1, d) || !env.sum(cmp.Y, -1, d) {
					continue
				}
				op := cmp.Op
				if errSucc == 1 {
					op = negateRel(op)
				}
				// error when free - demand < 0 with free = len(buf) - pos: demand = free - d (for <)
				// d = X - Y; "X < Y" error: with X = free, Y = demand -> demand = free - d
				switch op {
				case token.LSS:
				case token.GTR:
					neg := newLin()
					neg.addSum(d, -1)
					d = neg
				case token.LEQ:
					d.c-- // X <= Y  ==  X - 1 < Y
				case token.GEQ:
					neg := newLin()
					neg.addSum(d, -1)
					neg.c--
					d = neg
				default:
					continue
				}
				// demand - occupied = (free - d) - occ, free = len(buf) - pos
				diff := newLin()
				diff.add("len(buf)", 1)
				diff.add(posParam.Name(), -1)
				diff.addSum(d, -1)
				diff.canon()
				diff.addSum(occ, -1)
				nTests++
				n++
				construct := "space-test<=occupied"
				if nTests > 1 {
					construct += fmt.Sprintf(" #%d", nTests)
				}
				pos, neg := false, false
				for _, c := range diff.terms {
					if c > 0 {
						pos = true
					} else {
						neg = true
					}
				}
				if diff.c > 0 {
					pos = true
				} else if diff.c < 0 {
					neg = true
				}
				switch {
				case pos && !neg:
					r.Violate(rule, fname, construct, posOf(p, iff), fmt.Sprintf("the free-space test demands %s bytes more than the field occupies (%s): packets that fit are rejected with errShortBuffer (request and reply at pool level 2 are 1020 of 1024 bytes)", diff, occ))
				case pos && neg:
					r.Violate(rule, fname, construct, posOf(p, iff), fmt.Sprintf("UNDECIDED: demanded minus occupied bytes = %s has no fixed sign", diff))
				default:
					r.Ok(rule, fname, construct, posOf(p, iff), fmt.Sprintf("demanded minus occupied bytes = %s (never positive)", diff))
				}
			}
			if nTests == 0 {
				r.Violate(rule, fname, "space-test<=occupied", p.Pos(pk.Pos()), "UNDECIDED: no free-space test leading to errShortBuffer found")
			}
		}
	}
	floor := 0
	if declared {
		floor += 4
	}
	if space {
		floor += 4
	}
	r.Floor(rule+".sites", n, floor)
}

// successCursors returns the values of the first result on the returns (or merge inputs of a
// single return) whose error result is the nil constant.
func successCursors(fn *ssa.Function) (cur []ssa.Value, at ssa.Instruction) {
	isNil := func(v ssa.Value) bool {
		c, ok := v.(*ssa.Const)
		return ok && c.Value == nil
	}
	for _, b := range fn.Blocks {
		if len(b.Instrs) == 0 {
			continue
		}
		ret, ok := b.Instrs[len(b.Instrs)-1].(*ssa.Return)
		if !ok || len(ret.Results) != 2 {
			continue
		}
		ev := ret.Results[1]
		if isNil(ev) {
			cur = append(cur, ret.Results[0])
			at = ret
			continue
		}
		if ph, ok := ev.(*ssa.Phi); ok && ph.Block() == b {
			pv, _ := ret.Results[0].(*ssa.Phi)
			for i, e := range ph.Edges {
				if !isNil(e) {
					continue
				}
				at = ret
				if pv != nil && pv.Block() == b {
					cur = append(cur, pv.Edges[i])
				} else {
					cur = append(cur, ret.Results[0])
				}
			}
		}
	}
	return cur, at
}

func negateRel(op token.Token) token.Token {
	switch op {
	case token.LSS:
		return token.GEQ
	case token.GEQ:
		return token.LSS
	case token.GTR:
		return token.LEQ
	case token.LEQ:
		return token.GTR
	case token.EQL:
		return token.NEQ
	case token.NEQ:
		return token.EQL
	}
	return op
}
