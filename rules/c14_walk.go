package rules

import (
	"fmt"
	"go/token"

	"golang.org/x/tools/go/ssa"

	"verif/internal/ana"
)

// intTerms flattens an integer expression built from +, - and conversions into a sum of SSA
// values with integer coefficients and a constant.
func intTerms(v ssa.Value, sign int64, terms map[ssa.Value]int64, c *int64, d int) bool {
	v = ana.StripConv(v)
	if k, ok := ana.ConstInt(v); ok {
		*c += sign * k
		return true
	}
	if bo, ok := v.(*ssa.BinOp); ok && d < 8 && (bo.Op == token.ADD || bo.Op == token.SUB) {
		s2 := sign
		if bo.Op == token.SUB {
			s2 = -sign
		}
		return intTerms(bo.X, sign, terms, c, d+1) && intTerms(bo.Y, s2, terms, c, d+1)
	}
	terms[v] += sign
	if terms[v] == 0 {
		delete(terms, v)
	}
	return true
}

// c14FieldWalk: the two loops that walk NTS extension fields (nts.DecodePacket over the datagram,
// (*Packet).authenticate over the decrypted fields) keep going as long as at least 28 bytes - the
// size of the smallest last extension field - remain behind the cursor: the edge into the loop body
// is taken exactly when len(buf) - pos - K >= 0 with K <= 28. A stricter test silently drops a
// field that occupies exactly the end of the buffer (an encoded cookie would not decode).
func c14FieldWalk(p *ana.Prog, r *ana.Result) {
	found := 0
	for _, name := range []string{"DecodePacket", "(*Packet).authenticate"} {
		fn := mustFunc(p, r, "net/nts", name)
		if fn == nil {
			continue
		}
		fname := ana.FuncName(fn)
		// the walk: blocks that unpack an extension field header
		var hdr []ssa.Instruction
		for _, c := range ana.CallsIn(fn, ana.Q("(*net/nts.extHdr).unpack")) {
			hdr = append(hdr, c.(ssa.Instruction))
		}
		if len(hdr) == 0 {
			r.Violate("C14.walk", fname, "continues-while-28-remain", p.Pos(fn.Pos()), "UNDECIDED: no extension field header is unpacked in this function")
			continue
		}
		for hi, h := range hdr {
			construct := "continues-while-28-remain"
			if hi > 0 {
				construct += fmt.Sprintf(" #%d", hi+1)
			}
			// tests of the remaining length that guard the header read: If blocks one of whose
			// successors dominates the read and whose condition is linear in len(x) - cursor
			nTests, bad := 0, ""
			for _, b := range fn.Blocks {
				iff := c09LastIfOrNil(b)
				if iff == nil {
					continue
				}
				si := -1
				for k, s := range b.Succs {
					if len(s.Preds) == 1 && s.Dominates(h.Block()) {
						si = k
					}
				}
				if si < 0 {
					continue
				}
				for _, a := range ana.Implied(iff.Cond, si == 0) {
					cmp, pos, ok := ana.AsCmp(a.V)
					if !ok {
						continue
					}
					op := cmp.Op
					if a.Holds != pos {
						op = ana.NegOp(op)
					}
					terms := map[ssa.Value]int64{}
					var c int64
					if !intTerms(cmp.X, 1, terms, &c, 0) || !intTerms(cmp.Y, -1, terms, &c, 0) {
						continue
					}
					// normalise to  sum + c >= 0
					switch op {
					case token.GEQ:
					case token.GTR:
						c--
					case token.LEQ, token.LSS:
						for k := range terms {
							terms[k] = -terms[k]
						}
						c = -c
						if op == token.LSS {
							c--
						}
					default:
						continue
					}
					if len(terms) != 2 {
						continue
					}
					var lenV, cur ssa.Value
					for k, co := range terms {
						if co == 1 && isLenOf(k) {
							lenV = k
						} else if co == -1 {
							cur = k
						}
					}
					if lenV == nil || cur == nil {
						continue
					}
					nTests++
					if -c > 28 {
						bad = fmt.Sprintf("the walk is entered only when len - cursor >= %d (at %s): a field that ends the buffer with exactly 28 bytes is not decoded", -c, p.Pos(iff.Cond.Pos()))
					}
				}
			}
			switch {
			case bad != "":
				found++
				r.Violate("C14.walk", fname, construct, posOf(p, h), bad)
			case nTests == 0:
				r.Violate("C14.walk", fname, construct, posOf(p, h), "UNDECIDED: no test of the remaining length (len(buf) - cursor against a constant) guards the header read")
			default:
				found++
				r.Ok("C14.walk", fname, construct, posOf(p, h), fmt.Sprintf("the %d remaining-length test(s) in front of the header read admit every cursor with at least 28 bytes left", nTests))
			}
		}
	}
	r.Floor("C14.walk", found, 2)
}

func c09LastIfOrNil(b *ssa.BasicBlock) *ssa.If {
	if len(b.Instrs) == 0 {
		return nil
	}
	iff, _ := b.Instrs[len(b.Instrs)-1].(*ssa.If)
	return iff
}
