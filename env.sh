# source this: Go environment for the checker (see DESIGN.md §1)
export PATH=/opt/veriftools/go1.26.8/bin:$PATH
export GOTOOLCHAIN=local GOFLAGS=-mod=mod GOPROXY=off GOSUMDB=off
unset GOWORK
