// Command renamelocals rewrites, in place, every Go file of the module in the
// current directory so that every local variable, parameter, named result and
// receiver is renamed (suffix "_r"). It is a mechanical behaviour-preserving
// refactoring used to test the checks for dependence on local names
// (tools/run_rename_test.sh applies it to /repo and reverts it afterwards).
package main

import (
	"fmt"
	"go/ast"
	"go/types"
	"os"
	"sort"
	"strings"

	"golang.org/x/tools/go/packages"
)

type edit struct {
	off  int
	old  string
	repl string
}

func main() {
	cfg := &packages.Config{Mode: packages.LoadSyntax, Dir: ".", Tests: false,
		Env: append(os.Environ(), "GOOS=linux", "GOARCH=amd64", "CGO_ENABLED=0", "GOFLAGS=-mod=mod", "GOPROXY=off", "GOSUMDB=off", "GOTOOLCHAIN=local", "GOWORK=off")}
	pkgs, err := packages.Load(cfg, "./...")
	if err != nil {
		fmt.Println("load:", err)
		os.Exit(2)
	}
	only := ""
	if len(os.Args) > 1 {
		only = os.Args[1] // restrict to files whose path contains this substring
	}
	n := 0
	for _, pk := range pkgs {
		if len(pk.Errors) > 0 {
			fmt.Println("errors in", pk.PkgPath, pk.Errors[0])
			os.Exit(2)
		}
		for _, f := range pk.Syntax {
			fname := pk.Fset.Position(f.Pos()).Filename
			if only != "" && !strings.Contains(fname, only) {
				continue
			}
			var edits []edit
			local := func(o types.Object) bool {
				v, ok := o.(*types.Var)
				if !ok || v.IsField() || v.Name() == "_" || v.Name() == "" {
					return false
				}
				// package-level variables have the package scope as parent
				if v.Parent() == nil || v.Parent() == types.Universe || (v.Pkg() != nil && v.Parent() == v.Pkg().Scope()) {
					return false
				}
				return true
			}
			ast.Inspect(f, func(x ast.Node) bool {
				id, ok := x.(*ast.Ident)
				if !ok {
					return true
				}
				var o types.Object
				if d := pk.TypesInfo.Defs[id]; d != nil {
					o = d
				} else if u := pk.TypesInfo.Uses[id]; u != nil {
					o = u
				}
				if o == nil || !local(o) {
					return true
				}
				edits = append(edits, edit{pk.Fset.Position(id.Pos()).Offset, id.Name, id.Name + "_r"})
				return true
			})
			// struct literal keys and selector fields are Uses of fields: excluded above.
			// type switch symbolic variables: `switch v := x.(type)`: implicit objects per clause
			for node, obj := range pk.TypesInfo.Implicits {
				if cc, ok := node.(*ast.CaseClause); ok && local(obj) {
					_ = cc // uses inside the clause refer to this implicit object and are already renamed; the defining ident is in the switch guard
				}
			}
			ast.Inspect(f, func(x ast.Node) bool {
				ts, ok := x.(*ast.TypeSwitchStmt)
				if !ok {
					return true
				}
				if as, ok := ts.Assign.(*ast.AssignStmt); ok && len(as.Lhs) == 1 {
					if id, ok := as.Lhs[0].(*ast.Ident); ok && id.Name != "_" {
						edits = append(edits, edit{pk.Fset.Position(id.Pos()).Offset, id.Name, id.Name + "_r"})
					}
				}
				return true
			})
			if len(edits) == 0 {
				continue
			}
			src, err := os.ReadFile(fname)
			if err != nil {
				fmt.Println(err)
				os.Exit(2)
			}
			sort.Slice(edits, func(i, j int) bool { return edits[i].off > edits[j].off })
			seen := map[int]bool{}
			for _, e := range edits {
				if seen[e.off] {
					continue
				}
				seen[e.off] = true
				if string(src[e.off:e.off+len(e.old)]) != e.old {
					fmt.Println("mismatch at", fname, e.off, e.old)
					os.Exit(2)
				}
				src = append(src[:e.off], append([]byte(e.repl), src[e.off+len(e.old):]...)...)
				n++
			}
			if err := os.WriteFile(fname, src, 0o644); err != nil {
				fmt.Println(err)
				os.Exit(2)
			}
		}
	}
	fmt.Println("renamed identifiers:", n)
}
