// scioncheck decides structural necessary conditions of the scion-time
// properties C01..C20 by static analysis of /repo (see DESIGN.md).
package main

import (
	"bufio"
	"encoding/json"
	"flag"
	"fmt"
	"os"
	"os/exec"
	"path/filepath"
	"runtime/debug"
	"sort"
	"strconv"
	"strings"
	"sync"

	"verif/internal/ana"
	"verif/rules"
)

func main() {
	prop := flag.String("p", "", "property id (C01..C20)")
	tier := flag.String("tier", "", "quick|thorough (default $VERIF_TIER or quick)")
	verifDir := flag.String("verif", "", "verif directory (default: cwd)")
	dump := flag.String("dump", "", "debug: dump SSA of pkg.func")
	patch := flag.String("patch", "", "analyse the tree with this unified diff applied in memory (nothing is written to the repository, no evidence is written); exit 3 if it does not apply")
	flag.Parse()
	if *tier == "" {
		*tier = os.Getenv("VERIF_TIER")
	}
	if *tier != "thorough" {
		*tier = "quick"
	}
	if *verifDir == "" {
		*verifDir, _ = os.Getwd()
	}
	seed, _ := strconv.ParseInt(os.Getenv("VERIF_SEED"), 10, 64)
	code := run(*prop, *tier, *verifDir, seed, *dump, *patch)
	os.Exit(code)
}

// patchOverlay applies a unified diff to copies of the files it touches and returns their new text
// keyed by their path in the repository. The repository itself is not modified.
func patchOverlay(repo, patch string) (map[string][]byte, error) {
	abs, err := filepath.Abs(patch)
	if err != nil {
		return nil, err
	}
	f, err := os.Open(abs)
	if err != nil {
		return nil, err
	}
	defer f.Close()
	files := map[string]bool{}
	sc := bufio.NewScanner(f)
	sc.Buffer(make([]byte, 1<<20), 1<<26)
	for sc.Scan() {
		l := sc.Text()
		for _, pre := range []string{"--- a/", "+++ b/"} {
			if strings.HasPrefix(l, pre) {
				files[strings.TrimSpace(strings.SplitN(l[len(pre):], "\t", 2)[0])] = true
			}
		}
	}
	tmp, err := os.MkdirTemp("", "scioncheck-variant-")
	if err != nil {
		return nil, err
	}
	defer os.RemoveAll(tmp)
	for rel := range files {
		b, err := os.ReadFile(filepath.Join(repo, rel))
		if err != nil {
			continue // a file the diff creates
		}
		dst := filepath.Join(tmp, rel)
		if err := os.MkdirAll(filepath.Dir(dst), 0o755); err != nil {
			return nil, err
		}
		if err := os.WriteFile(dst, b, 0o644); err != nil {
			return nil, err
		}
	}
	cmd := exec.Command("git", "apply", "--whitespace=nowarn", abs)
	cmd.Dir = tmp
	cmd.Env = append(os.Environ(), "GIT_CEILING_DIRECTORIES="+filepath.Dir(tmp), "GIT_DIR=/nonexistent")
	if out, err := cmd.CombinedOutput(); err != nil {
		return nil, fmt.Errorf("git apply: %v: %s", err, strings.TrimSpace(string(out)))
	}
	ov := map[string][]byte{}
	for rel := range files {
		b, err := os.ReadFile(filepath.Join(tmp, rel))
		if err != nil {
			return nil, fmt.Errorf("the diff deletes %s (not supported)", rel)
		}
		if strings.HasSuffix(rel, ".go") {
			ov[filepath.Join(repo, rel)] = b
		}
	}
	return ov, nil
}

// seededAudit (thorough tier): every recorded source change that is known to break this
// property (seeded/<property>-*/patch.diff, each confirmed by a failing demonstration) is
// applied in memory to the current tree and the rules are run on the variant; the audit
// reports which of them the rules flag. It measures the checker on today's tree - a pass of
// the property check is the stronger, the more of the known ways to break it would have been
// reported. A change that no longer applies to the tree is skipped.
func seededAudit(prop, verifDir string) map[string]any {
	dirs, _ := filepath.Glob(filepath.Join(verifDir, "seeded", prop+"-*"))
	sort.Strings(dirs)
	type res struct{ id, outcome, keys string }
	out := make([]res, len(dirs))
	sem := make(chan struct{}, 3)
	var wg sync.WaitGroup
	for i, d := range dirs {
		wg.Add(1)
		go func(i int, d string) {
			defer wg.Done()
			sem <- struct{}{}
			defer func() { <-sem }()
			var b []byte
			var err error
			code := 0
			for attempt := 0; attempt < 2; attempt++ {
				cmd := exec.Command(os.Args[0], "-p", prop, "-tier", "quick", "-verif", verifDir, "-patch", filepath.Join(d, "patch.diff"))
				cmd.Env = os.Environ()
				b, err = cmd.Output()
				code = 0
				if ee, ok := err.(*exec.ExitError); ok {
					code = ee.ExitCode()
				} else if err != nil {
					code = 2
				}
				if code != 2 && code >= 0 {
					break // a run that was killed or could not start is repeated once
				}
			}
			var keys []string
			for _, l := range strings.Split(string(b), "\n") {
				if strings.HasPrefix(l, "  key=") && len(keys) < 3 {
					keys = append(keys, strings.TrimPrefix(l, "  key="))
				}
			}
			o := map[int]string{0: "not-flagged", 1: "flagged", 2: "checker-broken", 3: "does-not-apply"}[code]
			if code == 2 {
				for _, l := range strings.Split(string(b), "\n") {
					if strings.HasPrefix(l, "BROKEN") && len(keys) < 2 {
						keys = append(keys, l)
					}
				}
				if err != nil {
					keys = append(keys, err.Error())
				}
			}
			if o == "" {
				o = fmt.Sprintf("exit-%d", code)
			}
			out[i] = res{filepath.Base(d), o, strings.Join(keys, "; ")}
		}(i, d)
	}
	wg.Wait()
	tab := map[string]any{}
	counts := map[string]int{}
	for _, r := range out {
		tab[r.id] = map[string]string{"outcome": r.outcome, "first_obligations": r.keys}
		counts[r.outcome]++
		fmt.Printf("seeded-change %s: %s %s\n", r.id, r.outcome, r.keys)
	}
	return map[string]any{"changes": tab, "counts": counts}
}

func run(prop, tier, verifDir string, seed int64, dump, patch string) (code int) {
	defer func() {
		if r := recover(); r != nil {
			fmt.Printf("BROKEN: property=%s checker panic: %v\n%s\n", prop, r, debug.Stack())
			code = 2
		}
	}()
	var initial map[string][]byte
	if patch != "" {
		ov, perr := patchOverlay(ana.RepoDir(), patch)
		if perr != nil {
			fmt.Printf("PATCH-NOAPPLY: %v\n", perr)
			return 3
		}
		initial = ov
	}
	p, err := ana.LoadOverlay(ana.RepoDir(), "", initial)
	if err != nil {
		fmt.Printf("BROKEN: property=%s load failed: %v\n", prop, err)
		return 2
	}
	if dump == "@funcs" {
		for _, n := range ana.ListFuncs(p) {
			fmt.Println(n)
		}
		return 0
	}
	if dump == "@locals" {
		js, _ := json.MarshalIndent(ana.ListLocals(p), "", " ")
		fmt.Println(string(js))
		return 0
	}
	if dump == "@norm" {
		for _, l := range p.NormLog {
			fmt.Println(l)
		}
		for f, b := range p.Overlay {
			fmt.Printf("==== %s\n%s\n", f, b)
		}
		return 0
	}
	if dump != "" {
		rules.Dump(p, dump)
		return 0
	}
	rule, ok := rules.All[prop]
	if !ok {
		fmt.Printf("BROKEN: unknown property %q\n", prop)
		return 2
	}
	res := ana.NewResult(prop, tier)
	res.DryRun = patch != ""
	rule(p, res)
	if tier == "thorough" && patch == "" {
		res.Table("seeded_change_audit", seededAudit(prop, verifDir))
		res.Explain("Thorough tier: every obligation is listed in the evidence, and the rules are additionally run on in-memory variants of the current tree, one per recorded property-breaking change (seeded/" + prop + "-*), to report how many of the known ways to break the property they flag (table seeded_change_audit); the variants are never written to the repository and never executed.")
	}
	return res.Finish(verifDir, seed)
}
