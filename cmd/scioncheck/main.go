// scioncheck decides structural necessary conditions of the scion-time
// properties C01..C20 by static analysis of /repo (see DESIGN.md).
package main

import (
	"encoding/json"
	"flag"
	"fmt"
	"os"
	"runtime/debug"
	"strconv"

	"verif/internal/ana"
	"verif/rules"
)

func main() {
	prop := flag.String("p", "", "property id (C01..C20)")
	tier := flag.String("tier", "", "quick|thorough (default $VERIF_TIER or quick)")
	verifDir := flag.String("verif", "", "verif directory (default: cwd)")
	dump := flag.String("dump", "", "debug: dump SSA of pkg.func")
	flag.Parse()
	if *tier == "" {
		*tier = os.Getenv("VERIF_TIER")
	}
	if *tier != "thorough" {
		*tier = "quick"
	}
	if *verifDir == "" {
		*verifDir, _ = os.Getwd()
	}
	seed, _ := strconv.ParseInt(os.Getenv("VERIF_SEED"), 10, 64)
	code := run(*prop, *tier, *verifDir, seed, *dump)
	os.Exit(code)
}

func run(prop, tier, verifDir string, seed int64, dump string) (code int) {
	defer func() {
		if r := recover(); r != nil {
			fmt.Printf("BROKEN: property=%s checker panic: %v\n%s\n", prop, r, debug.Stack())
			code = 2
		}
	}()
	p, err := ana.Load(ana.RepoDir(), "")
	if err != nil {
		fmt.Printf("BROKEN: property=%s load failed: %v\n", prop, err)
		return 2
	}
	if dump == "@funcs" {
		for _, n := range ana.ListFuncs(p) {
			fmt.Println(n)
		}
		return 0
	}
	if dump == "@locals" {
		js, _ := json.MarshalIndent(ana.ListLocals(p), "", " ")
		fmt.Println(string(js))
		return 0
	}
	if dump == "@norm" {
		for _, l := range p.NormLog {
			fmt.Println(l)
		}
		for f, b := range p.Overlay {
			fmt.Printf("==== %s\n%s\n", f, b)
		}
		return 0
	}
	if dump != "" {
		rules.Dump(p, dump)
		return 0
	}
	rule, ok := rules.All[prop]
	if !ok {
		fmt.Printf("BROKEN: unknown property %q\n", prop)
		return 2
	}
	res := ana.NewResult(prop, tier)
	rule(p, res)
	return res.Finish(verifDir, seed)
}
